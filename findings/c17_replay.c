/* Triage replay for the C17 findings (not a check; DESIGN.md 4.1).
 * Build: see c17_replay.sh.  Allocator fails from the N-th call on. */
#include <stdio.h>
#include <stdlib.h>
#include <string.h>
#include "h3api.h"
static int calls = 0, failFrom = 1000000, live = 0;
void *vp_malloc(size_t n) { if (++calls >= failFrom) return NULL; live++; return malloc(n); }
void *vp_calloc(size_t a, size_t b) { if (++calls >= failFrom) return NULL; live++; return calloc(a, b); }
void *vp_realloc(void *p, size_t n) { if (++calls >= failFrom) return NULL; return realloc(p, n); }
void vp_free(void *p) { if (p) live--; free(p); }
int main(void) {
    int bad = 0;
    H3Index pent = 0x81083ffffffffffULL; /* res-1 pentagon */
    H3Index ring[7] = {0};
    gridDisk(pent, 1, ring);
    H3Index nb = 0;
    for (int i = 0; i < 7; i++) if (ring[i] && ring[i] != pent) nb = ring[i];
    /* choose neighbour in a different parent so the sibling shortcut is not taken */
    for (int i = 0; i < 7; i++) { H3Index p1, p2; if (!ring[i] || ring[i]==pent) continue; cellToParent(ring[i],0,&p1); cellToParent(pent,0,&p2); if (p1!=p2) nb = ring[i]; }
    int out = -1;
    calls = 0; failFrom = 1;
    H3Error e = areNeighborCells(pent, nb, &out);
    printf("areNeighborCells(pentagon, neighbour %llx) with failing allocator: err=%d out=%d allocs=%d (expected err=13)\n", (unsigned long long)nb, e, out, calls);
    if (e != E_MEMORY_ALLOC) bad++;
    /* polygonToCells around the pentagon */
    LatLng c; cellToLatLng(pent, &c);
    double d = 0.02;
    LatLng verts[4] = {{c.lat - d, c.lng - d}, {c.lat - d, c.lng + d}, {c.lat + d, c.lng + d}, {c.lat + d, c.lng - d}};
    GeoPolygon poly = {{4, verts}, 0, NULL};
    int64_t sz; maxPolygonToCellsSize(&poly, 3, 0, &sz);
    H3Index *o = calloc(sz, sizeof(H3Index));
    failFrom = 1000000; calls = 0; live = 0;
    e = polygonToCells(&poly, 3, 0, o);
    int total = calls;
    printf("polygonToCells near pentagon: err=%d allocations=%d\n", e, total);
    for (int f = 1; f <= total; f++) {
        memset(o, 0, sz * sizeof(H3Index)); calls = 0; live = 0; failFrom = f;
        e = polygonToCells(&poly, 3, 0, o);
        printf("  fail from allocation %d: err=%d live=%d%s\n", f, e, live, e != E_MEMORY_ALLOC ? "   <-- swallowed" : "");
        if (e != E_MEMORY_ALLOC || live) bad++;
    }
    printf(bad ? "DEFECT REPRODUCED (%d)\n" : "clean (%d)\n", bad);
    return bad ? 1 : 0;
}
