/* Triage replay for the C12 finding (DESIGN.md 4.2): maxPolygonToCellsSizeExperimental validates res/flags only
 * after its zero-vertex shortcut, unlike polygonToCellsExperimental. */
#include <stdio.h>
#include "h3api.h"
int main(void) {
    GeoPolygon empty = {{0, NULL}, 0, NULL};
    int64_t sz = -1; H3Index out[1] = {0};
    int bad = 0;
    H3Error a = maxPolygonToCellsSizeExperimental(&empty, -1, 0, &sz);
    H3Error b = maxPolygonToCellsSizeExperimental(&empty, 99, 0, &sz);
    H3Error c = maxPolygonToCellsSizeExperimental(&empty, 5, 99, &sz);
    H3Error d = polygonToCellsExperimental(&empty, -1, 0, 1, out);
    H3Error e = polygonToCellsExperimental(&empty, 5, 99, 1, out);
    printf("maxPolygonToCellsSizeExperimental(empty, res=-1) = %d (documented E_RES_DOMAIN=4)\n", a);
    printf("maxPolygonToCellsSizeExperimental(empty, res=99) = %d (documented E_RES_DOMAIN=4)\n", b);
    printf("maxPolygonToCellsSizeExperimental(empty, flags=99) = %d (documented E_OPTION_INVALID=15)\n", c);
    printf("polygonToCellsExperimental(empty, res=-1) = %d, (empty, flags=99) = %d  [sibling: rejects]\n", d, e);
    if (a != E_RES_DOMAIN || b != E_RES_DOMAIN || c != E_OPTION_INVALID) bad = 1;
    printf(bad ? "DEFECT REPRODUCED\n" : "clean\n");
    return bad;
}
