#!/bin/sh
R=${1:-/repo}; T=$(mktemp -d); trap 'rm -rf $T' EXIT
sed -e "s/@H3_VERSION_MAJOR@/4/;s/@H3_VERSION_MINOR@/2/;s/@H3_VERSION_PATCH@/1/" $R/src/h3lib/include/h3api.h.in > $T/h3api.h
cc -O1 -g -DH3_PREFIX= -I$T -I$R/src/h3lib/include $R/src/h3lib/lib/*.c "$(dirname "$0")/c12_emptypoly_replay.c" -lm -o $T/replay && $T/replay
