#!/bin/sh
# Builds the IR exporter from source on disk (offline). ~20 s.
set -e
cd "$(dirname "$0")/.."
if [ ! -x tools/irdump ] || [ tools/irdump.cc -nt tools/irdump ]; then
  clang++ $(llvm-config-14 --cxxflags) -O1 -fno-rtti tools/irdump.cc -o tools/irdump /usr/lib/llvm-14/lib/libLLVM-14.so
fi
echo "setup ok"
