"""R-ERRFLOW: a failing callee makes its caller fail (C12 and the properties of the respective callers; after Engler et al.).

For every call site whose callee returns H3Error and whose result is used, and for every non-zero code the callee can return
(the value sets of R-RET), the caller is explored from the call with the result of THIS execution assumed to be that code (a later
execution of the same call in a loop may return any code of the callee, success included): no path may end in `return E_SUCCESS` unless it passed a condition that is computed
from the assumed result and that the engine cannot interpret exactly (conditions independent of the result, e.g. loop bounds, do not matter).  The rule was inferred from the code base: of 89 such call sites one
tolerates a code on purpose; that (caller, callee, code) triple is frozen below with its reason.  A new tolerant site is a
VIOLATION that names the call, the code and the path to the successful return."""
from . import explore, ir
from .explore import Explorer, singleton
from .build import AnalysisBroken

RULE = "R-ERRFLOW"
EXCEPTIONS = {
    ("_gridDiskDistancesInternal", "h3NeighborRotations", 9):
        "E_PENTAGON from h3NeighborRotations means 'this is the deleted direction of a pentagon: there is no neighbour'; the safe disk skips that direction",
}
NAMES = {0: "E_SUCCESS", 1: "E_FAILED", 2: "E_DOMAIN", 3: "E_LATLNG_DOMAIN", 4: "E_RES_DOMAIN", 5: "E_CELL_INVALID", 6: "E_DIR_EDGE_INVALID",
         7: "E_UNDIR_EDGE_INVALID", 8: "E_VERTEX_INVALID", 9: "E_PENTAGON", 10: "E_DUPLICATE_INPUT", 11: "E_NOT_NEIGHBORS", 12: "E_RES_MISMATCH",
         13: "E_MEMORY_ALLOC", 14: "E_MEMORY_BOUNDS", 15: "E_OPTION_INVALID"}


def check(ctx, m, cfg, ret_sets, callers=None):
    """callers: set of source functions to restrict to (None = all)"""
    h3 = {f.name for f in m.defined() if f.d.get("ditypes", [""])[0] == "H3Error"}
    nsites = ncodes = 0
    for f in m.defined():
        if f.name not in h3:
            continue
        for i in f.all_insts():
            if i.op != "call" or i.callee not in h3 or not f.users(("i", i.id)):
                continue
            if callers is not None and i.src_fn not in callers and f.name not in callers:
                continue
            codes = sorted(c for c in ret_sets.get(i.callee, ()) if c != 0)
            nsites += 1
            bad = None
            for c in codes:
                ncodes += 1
                ex = Explorer(f, start_block=i.block.idx)
                ex.seed_dominating = True
                # this execution of the call fails with c; a later execution of the same call (next loop iteration) may return anything the callee can
                ex.assume_once[i.id] = (explore.const(c, 32), [explore.const(v, 32) for v in sorted(ret_sets.get(i.callee, {0}))])
                ex.run()
                for s, t, av in ex.rets:
                    if av is not None and singleton(av) == 0 and not s.env.get(("flag", "approx_dep")):
                        if (i.src_fn, i.callee, c) in EXCEPTIONS or (f.name, i.callee, c) in EXCEPTIONS:
                            continue
                        bad = (c, t, s)
                        break
                if bad:
                    break
            inst = {"caller": i.src_fn, "callee": i.callee, "codes": codes, "config": cfg}
            if bad:
                c, t, s = bad
                ctx.violation(RULE, "swallow:%s:%s:%d" % (i.src_fn, i.callee, c),
                              "%s can return %s (%d) here, and %s then still reaches `return E_SUCCESS` at %s (path lines %s): the failure is swallowed"
                              % (i.callee, NAMES.get(c, "?"), c, f.name, t.where(), explore.trail_lines(f, s.trail)), i.where(), inst)
            else:
                ctx.ok(RULE, inst, "for each of the callee's non-zero codes no exactly-interpreted path from the call reaches a successful return")
    for key, reason in EXCEPTIONS.items():
        ctx.note("errflow_exception_%s_%s_%d" % key, reason)
    return nsites
