"""R-WIT: compile-fail witnesses (_Static_assert over the real headers with the real flags)."""
import os, re, subprocess
from . import build
from .build import AnalysisBroken

SRC = os.path.join(build.VERIF, "rules", "witness.c")


def witnesses():
    out = []
    for m in re.finditer(r'^W\((\w+),\s*"([^"]*)"', open(SRC).read(), re.M):
        out.append((m.group(1), m.group(2).split()))
    return out


def check(ctx, pid, cfg="release", rule="R-WIT"):
    b = build.build(cfg, ())
    flags = build.base_flags(cfg, b["gen"])
    r = subprocess.run([build.CLANG, "-fsyntax-only", "-ferror-limit=0", "-Wno-everything"] + flags + [SRC],
                       stdout=subprocess.PIPE, stderr=subprocess.PIPE, text=True)
    failed = {}
    other = []
    for ln in r.stderr.splitlines():
        if "error:" not in ln:
            continue
        m = re.search(r'static_assert failed.*"WIT (\w+) ([^"]*)"', ln) or re.search(r"static assertion failed.*WIT (\w+) ([^\"']*)", ln)
        if m:
            failed[m.group(1)] = ln.strip()
        else:
            other.append(ln.strip())
    mine = [(w, props) for w, props in witnesses() if pid in props]
    if other:
        # a header no longer provides a name the witnesses use: the layout cannot be read, not a verdict
        ctx.broken(rule, "witness TU does not compile: %s" % "; ".join(other[:3]))
        return 0
    for w, props in mine:
        inst = {"witness": w, "config": cfg}
        if w in failed:
            ctx.violation(rule, "wit:%s" % w, "compile-time witness '%s' fails against the current headers: %s" % (w, failed[w]), "src/h3lib/include (see compiler message)", inst)
        else:
            ctx.ok(rule, inst, "_Static_assert holds with the build's flags")
    return len(mine)
