"""Source of MANIFEST.json (bin/mkmanifest)."""
import json, os

PENDING = "check not built yet in this session; see DESIGN.md section 3 for the planned static rules"

CHECKS = {
 "C17": dict(
    category="other",
    text="Decides, for every path of every allocating function (hence for every failure index of every input, which a fixed fault history per "
         "function cannot give): no exit with a live block, no double free, no use after free, NULL tested before use and turned into "
         "E_MEMORY_ALLOC; every caller of a function that may return E_MEMORY_ALLOC propagates it; the iterator-owned bounding boxes follow their "
         "ownership protocol (freed once, field nulled, error implies destroyed, creators release or hand over); with H3_ALLOC_PREFIX no raw "
         "allocator call remains. Not decided: 'results identical with the default allocator'.",
    design_ref="DESIGN.md 2.4 R-ALLOC/R-ERRPROP/R-OWN, 3 C17, 4.1",
    note="Typestate is path-sensitive on pointer nullness, phi-of-constant flags and compares with constants; other conditions are explored both ways "
         "(no condition of these functions depends on whether an earlier block is still allocated). Parameter summaries (use/free/escape) are computed "
         "by the same engine. Trusts the clang front end and the fixed opt pass list. The two genuine defects found (dropped gridDisk failures) were "
         "repaired in /repo by fix: commits bc7d3fd4 and 1928b379 and are listed as fixed in known_findings.txt.",
    technique="static analysis: ESP-style allocation typestate + error-code propagation fixpoint + ownership-protocol rules over LLVM IR, three build configurations",
 ),
 "C18": dict(
    category="proof",
    text="Whole property decided from the program text: the linked library module has no instruction that writes, memsets, "
         "atomically updates or frees any global (incl. function-local statics and const-cast tables), no global address is stored "
         "into a global, and every external callee is on the re-entrant list. Without library-owned mutable memory every interleaving "
         "of API calls on caller-owned buffers equals the sequential execution. Scans every function, so code added later is covered.",
    design_ref="DESIGN.md 2.4 R-GLOB, 3 C18",
    note="Trusts: clang-14 front end + fixed opt pass list; function-attrs' readonly/nocapture inference (used only as a shortcut, "
         "non-readonly parameters are followed into the callee); POSIX thread-safety of the libc/libm functions listed in rules/libc.json; "
         "a thread-safe user allocator. Thread-local globals are reported as undecided, not as violations.",
    technique="static analysis: interprocedural address-use (escape/effect) analysis over LLVM IR of all library units + external-callee classification",
 ),
}

def _partial(pid, decided, notdecided, rules):
    return dict(
        category="other",
        text="Static necessary conditions only (this check decides the listed clauses, not the behaviour). Decided: " + decided +
             " Not decided: " + notdecided,
        design_ref="DESIGN.md 3 " + pid,
        note="Rules: " + rules + ". Every rule re-derives its verdict from /repo's current IR/headers; anchors are symbols, never lines or text. "
             "Trusts the clang-14 front end, the fixed opt pass list and the rule engines under vlib/.",
        technique="static analysis: " + rules,
    )


G = "assume-and-explore guard analysis (path-sensitive range/relation propagation over LLVM IR)"
TAB = "table-agreement relations over the IR initialisers"
WIT = "compile-fail witnesses"
CF = "closed-form evaluation of extracted expression DAGs"
BW = "bounded-write relation analysis"
BP = "R-BITPROV exact bit-lane transducer interpretation + product with the documented automaton"
CHECKS.update({
 "C01": _partial("C01", "(1) the first sentence of the property in full: isValidCell returns true for EXACTLY the documented layout, for all 2^64 values - each bit trick "
                 "(_hasGoodTopBits, _hasAny7UptoRes incl. its borrow chain, _hasAll7AfterRes, _hasDeletedSubsequence incl. clz % 3) equals its documented digit predicate for every "
                 "resolution / base cell, and isValidCell as a whole (16 resolutions x 128 base-cell fields x all other bits) equals the documented predicate; a disagreement comes "
                 "with a witness index; getResolution / getBaseCellNumber / isResClassIII return exactly their field; (2) the documented layout (field offsets/widths/masks, H3_INIT, "
                 "mode value, counts, digit 7) as compile-time witnesses; (3) conjunct structure and argument binding of isValidCell; (4) the pentagon set used by the validity test "
                 "equals the pentagon set of baseCellData.",
                 "the closure clause (every index any function returns is valid) - only its bit-level building blocks are decided under C03/C04/C10.",
                 BP + " (vlib/lanes.py); R-CONJ " + G + "; R-TAB T7 " + TAB + "; R-WIT " + WIT),
 "C02": _partial("C02", "res outside 0..15 => E_RES_DOMAIN, non-finite lat/lng => E_LATLNG_DOMAIN, never success, no index written, boundary resolutions accepted; the face-centre "
                 "table that picks the face agrees with the one that projects onto it (T6); paired projection constants are mutually inverse (T16); the closest-face loop compares "
                 "every face centre (exits only at the table extent or below a threshold that is provably safe for the table's smallest centre angle), replaces the best exactly under "
                 "d < best and starts from >= 4.0 (R-ARGMIN); cwOffsetPent = the faces on which the deleted K wedge is the clockwise neighbour of the pentagon's wedge (T19); the digit "
                 "rotations _faceIjkToH3 applies (_h3Rotate60ccw/cw, _h3RotatePent60ccw/cw) rotate exactly the digits 1..res, for all index values.",
                 "containment of the point in the returned cell (floating-point geometry: rounding, gnomonic projection), success on arbitrary finite coordinates.",
                 "R-GUARD " + G + "; R-ARGMIN loop-exit / threshold rule against the face-centre table; " + BP + "; R-TAB T6,T16,T19 " + TAB + "; R-PROG progression-table rule"),
 "C03": _partial("C03", "getNumCells = 2+120*7^res for res 0..15 and equals 110 hexagon + 12 pentagon trees of the tables; pentagonCount/res0CellCount/enumerator bounds agree with "
                 "the tables (T7); every base cell's home address looks itself up, cross-face lookup entries agree (T4), face adjacency maps are mutual inverses (T5), "
                 "overage scale tables (T9), cwOffsetPent (T19); res-domain rejections of getNumCells/getPentagons; the validity predicate that 'valid cells number exactly' "
                 "quantifies over is the documented one for all 2^64 values and isPentagon is 'pentagon base cell and all digits 0' for all values (R-BITPROV); the closest-face loop "
                 "is a complete arg-min (R-ARGMIN).",
                 "latLngToCell(cellToLatLng(h)) = h for 5.7e14 cells (numeric); validity of getPentagons' cells at res > 0.",
                 "R-CFORM " + CF + "; " + BP + "; R-ARGMIN; R-TAB T4,T5,T7,T9,T19 " + TAB + "; R-GUARD " + G),
 "C04": _partial("C04", "the rejection clauses of cellToParent (E_RES_DOMAIN / E_RES_MISMATCH), cellToChildrenSize and cellToCenterChild (E_RES_DOMAIN) for every index and resolution; "
                 "cellToChildrenSize = 7^n (hexagon) / 1+5(7^n-1)/6 (pentagon) with n = childRes - res(h) for all 136 resolution pairs; for ALL index values: cellToParent stores "
                 "exactly h with resolution = parentRes and digits parentRes+1..res = 7 (codes and no-store on failure included), cellToCenterChild exactly h with digits res+1..childRes "
                 "= 0, makeDirectChild, isPentagon; the enumeration / order / partition clause by induction over the child iterator: iterInitParent yields the smallest child with the "
                 "documented skip digit, iterStepChild maps every reachable iterator state to the NEXT child in index order (base-7 increment of digits p+1..c with its carry chain, "
                 "skipping the deleted 1 of a pentagon) and to 0 after the last one, and cellToChildren stores the tested element before the single step at positions 0,1,2,.. (R-DRAIN).",
                 "that the child set so enumerated has the size cellToChildrenSize reports is arithmetic (7^n resp. 1+5(7^n-1)/6 digit strings), not re-derived; centre coincidence (numeric).",
                 "R-GUARD " + G + "; R-CFORM " + CF + "; " + BP + " with memory model (iterator induction); R-DRAIN loop-shape rule; R-ERRFLOW"),
 "C05": _partial("C05", "all live entries of the tables the neighbour step reads: digit transition tables = unique aperture-7 decomposition (T1), hexagon rows of both base-cell "
                 "tables derive from the face lookup (T2), adjacency symmetric with consistent rotations incl. the pentagon wedge rule (T3), digit rotation = coordinate rotation (T10), "
                 "sibling shortcut of areNeighborCells (T11), pentagon markers (T7), cwOffsetPent (T19); k < 0 => E_DOMAIN on all seven entry points; maxGridDiskSize = 3k(k+1)+1 without "
                 "overflow; the index rotations the neighbour step applies (_h3Rotate60ccw/cw, _h3RotatePent60ccw/cw, _h3LeadingNonZeroDigit) are exact for all index values; the "
                 "hash probe of the safe disk wraps with the modulus it starts with; a failing callee makes every disk function fail (one justified exception: E_PENTAGON = no neighbour); "
                 "the in-place ring walks test every cell for being a pentagon before stepping off it (typestate on the success-path skeleton, k = 1..5).",
                 "the pentagon special cases in h3NeighborRotations, equality with BFS, ring order (path- and data-dependent).",
                 "R-TAB T1,T2,T3,T7,T10,T11,T19 " + TAB + "; " + BP + "; R-GUARD " + G + "; R-CFORM " + CF + "; R-SIB hash-probe modulus; R-ERRFLOW error-flow exploration; R-WALK walk typestate (bounded k)"),
 "C06": _partial("C06", "uncompactCells writes outSet[i] only where i < numOut and returns E_MEMORY_BOUNDS when the capacity is reached; a target resolution coarser than a visited "
                 "cell (or above 15) => E_RES_MISMATCH, never success; uncompactCells expands each input cell into exactly its children in index order (iterator induction as in C04 + "
                 "R-DRAIN on its loop); cellToParent (used to find the parents compactCells counts) is bit-exact; both hash probes of compactCells wrap with the modulus they start with; "
                 "the three sites of compactCells that read the child counter agree with the family size (7 children, 6 for a pentagon, decided by isPentagon(parent)) for every reachable "
                 "counter value: duplicates reported exactly when a further child exceeds the family, a parent collected exactly when complete, children dropped exactly for collected "
                 "parents; a copy from a work list to the output without that classification moves at most 5 cells (R-FAMILY).",
                 "losslessness / canonicity / order independence of compactCells as a whole (contents of the hash set after a round: runtime data structure).",
                 "R-BW " + BW + "; R-GUARD " + G + "; " + BP + "; R-DRAIN; R-SIB hash-probe modulus; R-ERRFLOW; R-FAMILY counter-site exploration over LLVM IR"),
 "C07": _partial("C07", "the soundness half of the membership clause as far as it is visible in the shape of the code - nothing is emitted untested: polygonToCells stores a cell into out "
                 "only on the success edge of pointInsidePolygon applied to the polygon parameter, the bounding boxes filled from it and the centre (cellToLatLng) of that very cell, into the "
                 "probed slot that does not hold the cell yet; iterStepPolygonCompact (behind polygonToCellsExperimental), explored with the containment mode fixed, emits a cell in mode "
                 "CENTER only through the centre test of that cell or the inside test of the box covering all its descendants (in mode FULL: boundary-inside test or the latter); the "
                 "hole / bounding-box pairing convention of pointInsidePolygon's callers; the predicates that loop over the holes answer early only with the constant one hole can decide (R-QLOOP); "
                 "MAX_EDGE_LENGTH_RADS is not below the average edge length (boxes built from it cover their cell, T17); failing callees make both entry points fail.",
                 "completeness (every cell whose centre is inside is found: flood fill / hierarchy descent), the geometry of the tests themselves (floating-point ray casting, antimeridian "
                 "handling, bounding boxes covering a cell and its descendants), absence of duplicates beyond the slot test, and the size clause (rests on a floating-point estimate).",
                 "R-GATE must-pass-through (edge dominance + argument binding) and mode-reachability exploration over LLVM IR; R-QLOOP quantifier-loop exit rule; R-SIB sibling-call agreement; R-TAB T17,T18 " + TAB + "; R-ERRFLOW"),
 "C08": _partial("C08", "face adjacency/rotation tables are mutual inverses (T5), overage tables (T9), substrate vertex tables are closed ccw rings and the pentagon ones are their "
                 "first five rows (T13); cellAreaKm2 = Rads2*R^2, cellAreaM2 = Km2*10^6; cellAreaRads2 adds one triangle per side (i, (i+1) mod numVerts) of the boundary ring, "
                 "every side once, accumulator from 0.0 (R-FOLD); every vertex caller of _adjustOverageClassII passes pentLeading4 = 0 like its siblings (R-SYM substrate).",
                 "vertex counts, ccw order, coincidence of shared edges, areas summing to 4*pi (numeric geometry).", "R-TAB T5,T9,T13 " + TAB + "; R-CFORM " + CF + "; R-FOLD accumulation-shape rule; R-SYM sibling-agreement rule on call arguments"),
 "C09": _partial("C09", "E_RES_MISMATCH for cells of different resolution on gridDistance, gridPathCellsSize, gridPathCells, cellToLocalIj; mode != 0 => E_OPTION_INVALID; the lattice "
                 "tables that define 'neighbour' and that cellToLocalIjk unfolds with (T1,T2,T3,T10); PENTAGON_ROTATIONS_REVERSE undoes PENTAGON_ROTATIONS (T14); the index rotations "
                 "both directions apply are exact for all index values (R-BITPROV); overflow-checked parents cannot wrap (R-OVF); failing callees make the callers fail (R-ERRFLOW); "
                 "the _NONPOLAR/_POLAR reverse rotation tables and the forward unfolding are inverse in both directions wherever both succeed (T20), likewise T14 for a pentagon origin; "
                 "aperture-7 parent/child kernels (T21) and the ij/cube conversions (T22) are inverse linear maps; coordinates more than one base cell away are rejected before the "
                 "base-cell lookup: INVALID_DIGIT from _unitIjkToDigit never reaches a 7-wide table subscript (R-UNITVEC); a base-cell direction that unfolds onto the deleted K axis of a pentagon origin is rejected with E_PENTAGON (guard row on the rotation loop's exit value).",
                 "distance = graph distance.", "R-GUARD " + G + "; R-TAB T1,T2,T3,T10,T14,T20,T21,T22 " + TAB + "; " + BP + "; R-OVF; R-ERRFLOW; R-UNITVEC range-test/typestate rule"),
 "C10": _partial("C10", "isValidDirectedEdge conjuncts (direction 1..6, mode 2 via getDirectedEdgeOrigin, not K on a pentagon, valid origin) and acceptance when all hold; "
                 "E_NOT_NEIGHBORS and E_DIR_EDGE_INVALID clauses; direction<->vertex-number maps (T8), pentagon direction/face table (T12); edgeLengthKm/M unit factors; for all 2^64 "
                 "values isValidDirectedEdge accepts EXACTLY mode 2, direction 1..6 (not 1 on a pentagon) over a valid origin, and getDirectedEdgeOrigin stores exactly the edge with mode 1 and "
                 "reserved bits 0 (R-BITPROV); edgeLengthRads adds one great-circle distance per consecutive pair of the boundary stretch (R-FOLD).",
                 "boundary stretch geometry, destination round trip.", "R-CONJ/R-GUARD " + G + "; " + BP + "; R-FOLD accumulation-shape rule; R-TAB T8,T12 " + TAB + "; R-CFORM " + CF + "; R-ERRFLOW"),
 "C11": _partial("C11", "isValidVertex conjuncts (mode 4, valid owner, re-derivation succeeds, index equals the canonical one); vertex numbers outside the cell's range => E_DOMAIN; "
                 "T8, T12, pentagon set of pentagonDirectionFaces (T7); vertexToLatLng asks the hexagon and the pentagon boundary builder for the same one-vertex slice (R-SIB).",
                 "agreement of the three incident cells, 2N-4 count, coordinates.", "R-CONJ/R-GUARD " + G + "; R-TAB T7,T8,T12 " + TAB + "; R-SIB sibling-call agreement"),
 "C12": _partial("C12", "every row of the guard table (each documented rejection of an out-of-domain scalar: never success, documented code reachable, no write where stated); "
                 "every function can only return codes 0..15 (value-set fixpoint over returns, parameters, error fields); no H3Error is dropped (R-ERRDISC) and for every used call site and "
                 "every non-zero code of the callee the caller cannot reach `return E_SUCCESS` (R-ERRFLOW, one justified exception); overflow-checked helpers cannot wrap (R-OVF); no "
                 "argument-derived table subscript beyond the extent (R-IDX: index bit fields and integer parameters); every R-BITPROV instance; all bounded-write instances; every hash probe wraps with its starting modulus; error enum witnesses; maxGridDiskSize closed form.",
                 "absence of undefined behaviour in general (signed overflow outside the checked helpers, float-to-int conversions, recursion depth), NEVER()/ALWAYS() reachability.",
                 "R-GUARD/R-CONJ " + G + "; R-RET error-code value-set propagation; R-ERRDISC/R-ERRFLOW error-flow rules; R-OVF; R-IDX; R-UNITVEC; R-BW; R-SIB; R-WIT " + WIT),
 "C13": _partial("C13", "the three rejection clauses of childPosToCell (E_RES_DOMAIN, E_RES_MISMATCH, E_DOMAIN via validateChildPos incl. position == size) and of cellToChildPos; "
                 "positions -1, size, size+1, INT64_MAX, INT64_MIN are rejected without a store for every parent and all 136 resolution pairs; the child-count closed forms; "
                 "cellToChildPos(h) is the RANK of h among the children in index order for every valid child (per-digit contribution tables equal the rank formula: base-7 value of "
                 "the digits for a hexagon parent; P(c-k) + (v-2) 7^(c-k) + the digits after k for a pentagon parent whose first non-zero digit v is at k; all 952 (childRes, parentRes, "
                 "family) cases); childPosToCell applied to that rank and the parent stores exactly that child. Hence the two are mutually inverse bijections between the children and "
                 "0..size-1, and with the iterator induction of C04 (cellToChildren enumerates in index order) position i is the i-th element.",
                 "inputs that are not valid cells (undocumented behaviour); that the rank formula counts the documented child set is arithmetic (counting argument in DESIGN.md 3 C13), not re-derived.",
                 "R-GUARD " + G + "; R-CFORM " + CF + "; " + BP + " extended by a digit-contribution (lane-sum) domain with if-conversion; R-ERRFLOW"),
 "C14": _partial("C14", "announced size = gridDistance + 1 (errors passed on, nothing stored); gridPathCells writes out[n] only for n <= distance of the same callee's result, also on "
                 "the failing exits; resolution-mismatch rejection; a failing localIjkToCell makes gridPathCells fail (R-ERRFLOW); the rotation tables / kernels / cube conversion the "
                 "interpolation relies on (T14, T20, T21, T22); localIjkToCell rejects coordinates more than one base cell away before the base-cell lookup (R-UNITVEC); "
                 "the cube-rounding helper of the interpolation converts its three coordinates alike, each to the nearest integer (R-SYM round3), and receives them computed in double precision (R-SYM width); with every H3Error callee succeeding and a distance of 0 or 1 (equal or neighbouring cells) "
                 "gridPathCells originates no error of its own under a condition only isPentagon of an argument decides (guard row near-pairs-succeed).",
                 "contiguity / shortest path (floating interpolation).", "R-CFORM " + CF + "; R-BW " + BW + "; R-GUARD " + G + "; R-ERRFLOW; R-TAB T14,T20,T21,T22 " + TAB + "; R-UNITVEC range-test/typestate rule; R-SYM sibling-agreement rule over the def-use chains of the three coordinates"),
 "C15": _partial("C15", "out[i] only where i < size, E_MEMORY_BOUNDS when the capacity is reached; flags outside {0,1,2,3} => E_OPTION_INVALID on both experimental entry points; "
                 "containment-mode enum/mask witnesses; in each of the four containment modes every cell iterStepPolygonCompact emits has passed, on every path, the success edge of a test "
                 "that the mode admits, applied to that cell's own geometry (R-GATE).",
                 "what each containment mode means geometrically, nestedness, the size estimate being an upper bound.", "R-BW " + BW + "; R-GUARD " + G + "; R-GATE must-pass-through with argument binding; R-WIT " + WIT),
 "C16": _partial("C16", "the memory clause: scratch arrays of normalizeMultiPolygon/findPolygonForHole and the duplicate-node path of addVertexNode are freed on every path "
                 "without double free; a local vertex graph is destroyed on every path once initialised; cellsToLinkedMultiPolygon destroys the result before returning an error; "
                 "a hole that cannot be placed is freed and the hole loop is only left after every collected hole was visited; every struct type the builders allocate is freed in the call "
                 "tree of destroyLinkedMultiPolygon / destroyVertexGraph; two structural necessary conditions of the hole placement (loop/bounding-box pairing, arrays forwarded with their length); "
                 "the tolerance with which edge end points are matched is a constant below a quarter of the average res-15 edge (from the library's own edge-length table), so distinct vertices are never identified; "
                 "a loop taken from the candidate list is never tested for containment against itself (R-SYM selfexcl).",
                 "the outline itself: one polygon per component, winding, closedness, enclosed area (depends on bit-level agreement of vertex coordinates and a float hash).",
                 "R-ALLOC allocation typestate; R-OWN ownership-protocol rules over LLVM IR (incl. L6: no object is handed to addNewLinkedPolygon twice; L7: the hole loop visits every collected hole); "
                 "R-SIB pairing rules (a loop keeps the bounding box it was tested with; candidate arrays are forwarded with their length); R-SYM self-exclusion rule (edge dominance of a pointer comparison over the containment call)"),
 "C19": _partial("C19", "maxFaceCount = 5 for a pentagon else 2; getIcosahedronFaces initialises and writes only slots below that count (relation facts incl. the insertion loop); "
                 "face adjacency tables (T5, T9); the dispatch between the methods: a pentagon at an even (Class II) resolution never reaches a vertex method, an odd-resolution "
                 "pentagon never the hexagon method nor the recursion, a hexagon never the pentagon method (guard rows of kind reach); every vertex caller of _adjustOverageClassII passes pentLeading4 = 0 like its siblings (R-SYM substrate).",
                 "that the reported faces are exactly the intersected ones (overage geometry).", "R-CFORM " + CF + "; R-BW " + BW + "; R-GUARD " + G + "; R-TAB T5,T9 " + TAB + "; R-SYM sibling-agreement rule on call arguments"),
 "C20": _partial("C20", "one unpadded lower-case 64-bit %x applied to the whole index and written to str; longest output (derived from the format) + NUL never reachable with a "
                 "smaller sz; sz < 17 => E_MEMORY_BOUNDS with the buffer untouched and sz = 17 accepted; stringToH3 parses with the same conversion, stores only when exactly one item "
                 "was converted, otherwise returns an error. Given the C standard's semantics of %lx these imply the round trip for all 2^64 values.",
                 "nothing beyond the libc semantics of the conversion.", "R-FMT format-string analysis; R-GUARD " + G),
})

NA = {
}

ALL = ["C%02d" % i for i in range(1, 21)]


def manifest():
    checks = []
    for pid in ALL:
        if pid not in CHECKS:
            continue
        c = CHECKS[pid]
        checks.append({
            "property_id": pid,
            "quick_cmd": "bin/check %s --tier quick" % pid,
            "thorough_cmd": "bin/check %s --tier thorough" % pid,
            "evidence_file": "evidence/%s.json" % pid,
            "replay_cmd_template": "bin/check %s --replay {path}" % pid,
            "engine": "h3static",
            "level_claimed": {"category": c["category"], "text": c["text"], "design_ref": c["design_ref"]},
            "level_note": c["note"],
            "technique": c["technique"],
        })
    na = []
    for pid in ALL:
        if pid in CHECKS:
            continue
        na.append({"property_id": pid, "reason": NA.get(pid, PENDING)})
    return {
        "version": 1,
        "setup_cmd": "sh bin/setup.sh",
        "hooks": {
            "guard": "UBER_H3_VERIF",
            "enable": "none needed: every rule observes /repo from outside (IR, AST, headers); no hook is compiled into the library",
            "baseline_off_cmd": "cmake --build /repo/_build && ctest --test-dir /repo/_build -j8 --timeout 900",
            "source_commits": [],
            "add_only": True,
        },
        "engines": [
            {"name": "h3static", "path": "bin/check", "serves_properties": sorted(CHECKS),
             "kind_free_text": "static analysis: clang-14 -> LLVM IR of all 19 library units (per configuration), exported by tools/irdump.cc, "
                               "custom dataflow / typestate / table-agreement / guard rules in vlib/*.py; nothing of h3 is executed"},
        ],
        "checks": checks,
        "not_applicable": na,
        "notes": "Exit codes: 0 holds, 1 violation (VIOLATION line), 2 analysis-broken (anchor vanished / idiom not understood; never on the unchanged tree). "
                 "known_findings.txt lists recorded findings and fixes.",
    }
