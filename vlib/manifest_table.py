"""Source of MANIFEST.json (bin/mkmanifest)."""
import json, os

PENDING = "check not built yet in this session; see DESIGN.md section 3 for the planned static rules"

CHECKS = {
 "C17": dict(
    category="other",
    text="Decides, for every path of every allocating function (hence for every failure index of every input, which a fixed fault history per "
         "function cannot give): no exit with a live block, no double free, no use after free, NULL tested before use and turned into "
         "E_MEMORY_ALLOC; every caller of a function that may return E_MEMORY_ALLOC propagates it; the iterator-owned bounding boxes follow their "
         "ownership protocol (freed once, field nulled, error implies destroyed, creators release or hand over); with H3_ALLOC_PREFIX no raw "
         "allocator call remains. Not decided: 'results identical with the default allocator'.",
    design_ref="DESIGN.md 2.4 R-ALLOC/R-ERRPROP/R-OWN, 3 C17, 4.1",
    note="Typestate is path-sensitive on pointer nullness, phi-of-constant flags and compares with constants; other conditions are explored both ways "
         "(no condition of these functions depends on whether an earlier block is still allocated). Parameter summaries (use/free/escape) are computed "
         "by the same engine. Trusts the clang front end and the fixed opt pass list. The two genuine defects found (dropped gridDisk failures) were "
         "repaired in /repo by fix: commits bc7d3fd4 and 1928b379 and are listed as fixed in known_findings.txt.",
    technique="static analysis: ESP-style allocation typestate + error-code propagation fixpoint + ownership-protocol rules over LLVM IR, three build configurations",
 ),
 "C18": dict(
    category="proof",
    text="Whole property decided from the program text: the linked library module has no instruction that writes, memsets, "
         "atomically updates or frees any global (incl. function-local statics and const-cast tables), no global address is stored "
         "into a global, and every external callee is on the re-entrant list. Without library-owned mutable memory every interleaving "
         "of API calls on caller-owned buffers equals the sequential execution. Scans every function, so code added later is covered.",
    design_ref="DESIGN.md 2.4 R-GLOB, 3 C18",
    note="Trusts: clang-14 front end + fixed opt pass list; function-attrs' readonly/nocapture inference (used only as a shortcut, "
         "non-readonly parameters are followed into the callee); POSIX thread-safety of the libc/libm functions listed in rules/libc.json; "
         "a thread-safe user allocator. Thread-local globals are reported as undecided, not as violations.",
    technique="static analysis: interprocedural address-use (escape/effect) analysis over LLVM IR of all library units + external-callee classification",
 ),
}

NA = {
 "C07": "membership of a cell is decided by floating-point ray casting against arbitrary caller polygons plus a data-dependent flood fill; "
        "no clause about which cells are returned is visible in the shape of the code, and the size clause rests on a floating-point value fact "
        "(ceil of an estimate being positive) that no static argument in reach establishes (DESIGN.md 3 C07, 6)",
}

ALL = ["C%02d" % i for i in range(1, 21)]


def manifest():
    checks = []
    for pid in ALL:
        if pid not in CHECKS:
            continue
        c = CHECKS[pid]
        checks.append({
            "property_id": pid,
            "quick_cmd": "bin/check %s --tier quick" % pid,
            "thorough_cmd": "bin/check %s --tier thorough" % pid,
            "evidence_file": "evidence/%s.json" % pid,
            "replay_cmd_template": "bin/check %s --replay {path}" % pid,
            "engine": "h3static",
            "level_claimed": {"category": c["category"], "text": c["text"], "design_ref": c["design_ref"]},
            "level_note": c["note"],
            "technique": c["technique"],
        })
    na = []
    for pid in ALL:
        if pid in CHECKS:
            continue
        na.append({"property_id": pid, "reason": NA.get(pid, PENDING)})
    return {
        "version": 1,
        "setup_cmd": "sh bin/setup.sh",
        "hooks": {
            "guard": "UBER_H3_VERIF",
            "enable": "none needed: every rule observes /repo from outside (IR, AST, headers); no hook is compiled into the library",
            "baseline_off_cmd": "cmake --build /repo/_build && ctest --test-dir /repo/_build -j8 --timeout 900",
            "source_commits": [],
            "add_only": True,
        },
        "engines": [
            {"name": "h3static", "path": "bin/check", "serves_properties": sorted(CHECKS),
             "kind_free_text": "static analysis: clang-14 -> LLVM IR of all 19 library units (per configuration), exported by tools/irdump.cc, "
                               "custom dataflow / typestate / table-agreement / guard rules in vlib/*.py; nothing of h3 is executed"},
        ],
        "checks": checks,
        "not_applicable": na,
        "notes": "Exit codes: 0 holds, 1 violation (VIOLATION line), 2 analysis-broken (anchor vanished / idiom not understood; never on the unchanged tree). "
                 "known_findings.txt lists recorded findings and fixes.",
    }
