"""R-ALLOC (allocation typestate), R-ERRPROP (E_MEMORY_ALLOC propagation), R-OWN (owned blocks),
allocator indirection (DESIGN.md 2.4; C16, C17)."""
from . import ir, explore
from .explore import Explorer, singleton, TOP
from .build import AnalysisBroken

E_MEMORY_ALLOC = 13
LIVE_STATES = ("live", "unchecked")


def allocator_names(cfg):
    p = "vp_" if cfg == "prefix" else ""
    return {"alloc": {p + "malloc", p + "calloc"}, "realloc": {p + "realloc"}, "free": {p + "free"}}


def call_graph(m):
    cg = {}
    for f in m.defined():
        s = cg.setdefault(f.name, set())
        for i in f.all_insts():
            if i.op == "call" and i.callee:
                s.add(i.callee)
    return cg


def reachable(cg, roots):
    out = set()
    work = list(roots)
    while work:
        n = work.pop()
        if n in out:
            continue
        out.add(n)
        work.extend(cg.get(n, ()))
    return out


class AllocPlugin:
    """typestate per allocation site: unalloc(absent) | unchecked | null | live | freed | escaped"""

    def __init__(self, m, f, names, strict_null, summaries, report=True):
        self.m, self.f, self.names = m, f, names
        self.strict = strict_null
        self.summaries = summaries
        self.found = []      # (kind, site, inst, state)
        self.sites = {}
        self.report = report
        self.exit_states = []

    # -- helpers
    def _site_of(self, ex, o, env):
        av = ex.eval(o, env)
        if av is not None and av[0] == "ptr" and av[1] is not None:
            return av[1]
        return None

    def on_null_refine(self, ex, o, av, e):
        if av[1] is not None:
            k = ("site", av[1])
            cur = e.get(k)
            if cur == "unchecked":
                e[k] = "null" if av[2] == "null" else "live"
            elif cur in ("live", "escaped", "freed") and av[2] == "null":
                pass

    def _use(self, ex, s, i, site, what):
        st = s.env.get(("site", site))
        if st == "freed":
            self.found.append(("use-after-free", site, i, s, what))
        elif st in ("unchecked", "null") and self.strict:
            self.found.append(("use-before-null-check" if st == "unchecked" else "null-deref", site, i, s, what))

    def on_inst(self, ex, s, i):
        env = s.env
        op = i.op
        if op == "call":
            cal = i.callee
            if cal in self.names["alloc"]:
                k = ("site", i.id)
                self.sites[i.id] = i
                if env.get(k) in LIVE_STATES:
                    self.found.append(("realloc-while-live", i.id, i, s, "allocation executed again while its previous block is still allocated"))
                env[k] = "unchecked"
                env[("i", i.id)] = ("ptr", i.id, "maybe")
                return None
            if cal in self.names["realloc"]:
                raise AnalysisBroken("realloc at %s: idiom not modelled by R-ALLOC" % i.where())
            if cal in self.names["free"]:
                site = self._site_of(ex, i.ops[0], env)
                if site is not None:
                    k = ("site", site)
                    st = env.get(k)
                    if st == "freed":
                        self.found.append(("double-free", site, i, s, "block freed twice"))
                    elif st == "null":
                        pass
                    else:
                        env[k] = "freed"
                return None
            # other callees
            if self.strict:
                for o in i.ops:
                    if o[0] == "c" and o[2] == 32 and o[1] == E_MEMORY_ALLOC and any(v == "null" for k, v in env.items() if k[0] == "site"):
                        env[("flag", "reported")] = True
            for idx, o in enumerate(i.ops):
                site = self._site_of(ex, o, env)
                if site is None:
                    continue
                eff = self._callee_effect(cal, idx)
                if eff == "use":
                    self._use(ex, s, i, site, "passed to %s" % cal)
                elif eff == "free":
                    k = ("site", site)
                    if env.get(k) == "freed":
                        self.found.append(("double-free", site, i, s, "block freed again inside %s" % cal))
                    elif env.get(k) != "null":
                        env[k] = "freed"
                elif eff == "escape":
                    self._use(ex, s, i, site, "passed to %s" % cal)
                    if env.get(("site", site)) in ("live", "unchecked"):
                        env[("site", site)] = "escaped"
                else:
                    raise AnalysisBroken("cannot summarise what %s does with the block passed at %s" % (cal, i.where()))
            return None
        if op == "load":
            site = self._site_of(ex, i.ops[0], env)
            if site is not None:
                self._use(ex, s, i, site, "read")
            return None
        if op == "store":
            site = self._site_of(ex, i.ops[1], env)
            if site is not None:
                self._use(ex, s, i, site, "written")
            vs = self._site_of(ex, i.ops[0], env)
            if vs is not None and env.get(("site", vs)) in ("live", "unchecked"):
                holder = site if (site is not None and site >= 0 and site != vs) else None
                if holder is not None and env.get(("site", holder)) in ("live", "unchecked"):
                    # stored into another block this function owns: the pointer lives only as long as that block
                    env[("held", vs)] = holder
                else:
                    env[("site", vs)] = "escaped"
            return None
        return None

    def _callee_effect(self, cal, idx):
        if cal is None:
            return None
        if cal.startswith("llvm.mem") or cal in ("memcpy", "memset", "memmove", "memcmp"):
            return "use"
        if cal.startswith("llvm."):
            return "use"
        cf = self.m.functions.get(cal)
        if cf is None or cf.decl:
            return None
        key = (cal, idx)
        if key not in self.summaries:
            self.summaries[key] = "use"  # recursion: optimistic start, confirmed by the result below
            self.summaries[key] = summarize_param(self.m, cf, idx, self.names, self.summaries)
        return self.summaries[key]

    def on_ret(self, ex, s, t, av):
        env = s.env
        if t.ops:
            site = self._site_of(ex, t.ops[0], env)
            if site is not None and env.get(("site", site)) in LIVE_STATES:
                env[("site", site)] = "escaped"
        for k, holder in [(k, v) for k, v in env.items() if k[0] == "held"]:
            if env.get(("site", holder)) != "freed" and env.get(("site", k[1])) in LIVE_STATES:
                env[("site", k[1])] = "escaped"
        states = {k[1]: v for k, v in env.items() if k[0] == "site"}
        self.exit_states.append(states)
        for site, st in states.items():
            if st in LIVE_STATES and site >= 0:
                self.found.append(("leak", site, t, s, "function exit with the block still allocated"))
        if self.strict and any(st == "null" for site, st in states.items() if site >= 0):
            v = singleton(av) if av is not None and av[0] == "int" else None
            isH3 = self.f.d.get("ditypes", [""])[0] == "H3Error"
            if (isH3 and v != E_MEMORY_ALLOC) or (not isH3 and not env.get(("flag", "reported"))):
                site = next(site for site, st in states.items() if st == "null" and site >= 0)
                self.found.append(("failure-not-reported", site, t, s,
                                   "allocation returned NULL on this path but the function returns %s instead of E_MEMORY_ALLOC" % (explore.fmt(av))))


def summarize_param(m, cf, idx, names, summaries):
    """'use' | 'free' | 'escape' | None(mixed/unknown) for a block passed as parameter idx of defined function cf"""
    if not cf.has_body:
        return None
    pl = AllocPlugin(m, cf, names, False, summaries, report=False)
    pseudo = -1 - idx
    ex = Explorer(cf, assume={("a", idx): ("ptr", pseudo, "nonnull"), ("site", pseudo): "live"}, plugin=pl, keep_trail=False)
    try:
        ex.run()
    except AnalysisBroken:
        return None
    finals = {st.get(pseudo) for st in pl.exit_states}
    if finals == {"freed"}:
        return "free"
    if "freed" in finals:
        return None
    if finals <= {"live"}:
        # every store / return / call of the pointer was followed by the typestate engine itself (stores into blocks the
        # callee frees are not escapes), so the block is still the caller's at every return
        return "use"
    if finals <= {"live", "escaped"}:
        return "escape"
    return None


def check_alloc(ctx, m, cfg, strict_fns, prop_rule="R-ALLOC", only=None):
    """typestate over every function that allocates or frees.  strict_fns: functions in which a NULL result
    must be tested before use and reported as E_MEMORY_ALLOC (the C17 closure)."""
    names = allocator_names(cfg)
    summaries = {}
    nsites = 0
    nfun = 0
    for f in m.defined():
        if only is not None and f.name not in only:
            continue
        allocs = [i for i in f.all_insts() if i.op == "call" and i.callee in names["alloc"] | names["realloc"]]
        if not allocs:
            continue
        nfun += 1
        pl = AllocPlugin(m, f, names, f.name in strict_fns, summaries)
        ex = Explorer(f, plugin=pl)
        try:
            ex.run()
        except AnalysisBroken as e:
            ctx.broken(prop_rule, "%s: %s" % (f.name, e))
            continue
        # de-duplicate findings per (kind, site, exit)
        seen = set()
        bad_sites = set()
        for kind, site, inst, s, what in pl.found:
            a = pl.sites.get(site)
            key = (kind, site, inst.id)
            if key in seen:
                continue
            seen.add(key)
            bad_sites.add(site)
            aw = a.where() if a is not None else "?"
            nth = 1 + sorted(pl.sites).index(site) if site in pl.sites else 0
            var = _site_var(f, a) if a is not None else "?"
            msg = "%s: block '%s' allocated at %s; %s at %s (path through lines %s)" % (
                kind, var, aw, what, inst.where(), explore.trail_lines(f, s.trail))
            ctx.violation(prop_rule, "%s:%s:%s" % (kind, f.name, var), msg, inst.where(),
                          {"function": f.name, "alloc": aw, "at": inst.where(), "config": cfg, "kind": kind})
        for a in allocs:
            nsites += 1
            if a.id not in bad_sites:
                ctx.ok(prop_rule, {"function": f.name, "site": _site_var(f, a), "at": a.where(), "config": cfg,
                                   "strict_null_protocol": f.name in strict_fns},
                       "typestate explored on all %d blocks / %d path states: every exit has the block freed, escaped to its owner, or never allocated; "
                       "no double free, no use after free%s" % (len(ex.visited_blocks), ex.steps,
                                                              "; NULL tested before use and reported as E_MEMORY_ALLOC" if f.name in strict_fns else ""))
    return nsites, nfun


def _site_var(f, a):
    """debug-info name of the variable the allocation result is assigned to"""
    # the result usually flows through a bitcast; find a dbg.value on it
    keys = {("i", a.id)}
    for u in f.users(("i", a.id)):
        if u.op == "bitcast":
            keys.add(("i", u.id))
    for dv in f.dbgvars:
        v = dv["v"]
        if v[0] == "i" and ("i", v[1]) in keys:
            return dv["name"]
    # stored into a struct field?
    for k in keys:
        for u in f.users(k):
            if u.op == "store" and u.ops[0][0] == "i" and ("i", u.ops[0][1]) in keys and u.ops[1][0] == "i":
                g = f.insts[u.ops[1][1]]
                if g.op == "getelementptr":
                    fld = gep_field(f.module, g)
                    if fld:
                        return "%s.%s" % fld
    return "site@%s" % a.name if a.name else "site%d" % a.id


def gep_field(m, g):
    """(struct short name, field name) addressed by a struct GEP (innermost field for nested paths), else None"""
    path = ir._gep_path(m, g.d.get("srcty", ""), g.ops[1:])
    if path and path[-1][0] == "f":
        return (path[-1][1], path[-1][2])
    return None


# ------------------------------------------------------------------ R-ERRPROP
def may_return_alloc_error(m, cfg):
    """MA: least set of functions whose return value may be E_MEMORY_ALLOC"""
    MA = set()
    may_params = set()   # (function, arg index) that may receive the code
    err_fields = set()   # (struct, field) into which such a value is stored
    changed = True

    def value_may(f, o, seen):
        if o[0] == "c":
            return o[1] == E_MEMORY_ALLOC and o[2] == 32
        if o[0] == "a":
            return (f.name, o[1]) in may_params
        if o[0] != "i":
            return False
        if o[1] in seen:
            return False
        seen.add(o[1])
        i = f.insts[o[1]]
        if i.op == "call":
            return i.callee in MA
        if i.op in ("phi", "select"):
            ops = i.ops if i.op == "phi" else i.ops[1:]
            return any(value_may(f, x, seen) for x in ops)
        if i.op == "load" and i.ops[0][0] == "i":
            g = f.insts[i.ops[0][1]]
            if g.op == "getelementptr":
                fld = gep_field(m, g)
                return fld in err_fields
        return False

    while changed:
        changed = False
        for f in m.defined():
            if f.d["ret"] != "i32":
                pass
            for i in f.all_insts():
                if i.op == "call" and i.callee in m.functions and not m.functions[i.callee].decl:
                    for k, o in enumerate(i.ops):
                        if (i.callee, k) not in may_params and o[0] in ("c", "i", "a") and value_may(f, o, set()):
                            if o[0] == "c" and m.functions[i.callee].args[k]["type"] != "i32":
                                continue
                            may_params.add((i.callee, k))
                            changed = True
                if i.op == "store" and i.ops[1][0] == "i":
                    g = f.insts[i.ops[1][1]]
                    if g.op == "getelementptr":
                        fld = gep_field(m, g)
                        if fld and fld not in err_fields and i.type == "void" and value_may(f, i.ops[0], set()):
                            err_fields.add(fld)
                            changed = True
            if f.name in MA or f.d["ret"] != "i32":
                continue
            for r in f.rets():
                if r.ops and value_may(f, r.ops[0], set()):
                    MA.add(f.name)
                    changed = True
                    break
    return MA, err_fields


class _NonzeroProbe:
    """after a call whose result r may be E_MEMORY_ALLOC: explore with r != 0 and look at what is returned"""

    def __init__(self):
        pass

    def on_inst(self, ex, s, i):
        return None


def check_errprop(ctx, m, cfg, rule="R-ERRPROP"):
    MA, err_fields = may_return_alloc_error(m, cfg)
    n = 0
    for f in m.defined():
        for i in f.all_insts():
            if i.op != "call" or i.callee not in MA:
                continue
            n += 1
            inst = {"caller": f.name, "callee": i.callee, "at": i.where(), "config": cfg}
            verdict, why = _result_propagated(m, f, i, err_fields)
            if verdict == "ok":
                ctx.ok(rule, inst, why)
            elif verdict == "violation":
                ctx.violation(rule, "dropped:%s:%s" % (i.src_fn, i.callee),
                              "%s may return E_MEMORY_ALLOC but its result is %s in %s" % (i.callee, why, i.src_fn), i.where(), inst)
            else:
                ctx.broken(rule, "%s -> %s at %s: %s" % (f.name, i.callee, i.where(), why))
    ctx.note("may_return_E_MEMORY_ALLOC_" + cfg, sorted(MA))
    return n, MA


def _result_propagated(m, f, call, err_fields):
    """The value of `call` being 13 must make the function return 13 (or record it in an iterator error field)."""
    if not f.users(("i", call.id)):
        return "violation", "ignored (no use of the returned code)"
    # explore from the call's block with the result assumed to be exactly E_MEMORY_ALLOC
    class P:
        def __init__(self):
            self.stored = False

        def on_inst(self, ex, s, i):
            if i.op == "store" and i.ops[1][0] == "i":
                g = f.insts[i.ops[1][1]]
                if g.op == "getelementptr" and gep_field(m, g) in err_fields:
                    v = ex.eval(i.ops[0], s.env)
                    if singleton(v) == E_MEMORY_ALLOC:
                        s.env[("flag", "stored")] = True
            if i.op == "call" and i.callee and i.id != call.id:
                # passing the code on to an error-recording helper (iterErrorPolygonCompact(iter, err))
                for o in i.ops:
                    v = ex.eval(o, s.env)
                    if v is not None and v[0] == "int" and v[1] == 32 and singleton(v) == E_MEMORY_ALLOC and o[0] != "c":
                        s.env[("flag", "stored")] = True
            return None
    p = P()
    ex = Explorer(f, assume_def={call.id: explore.const(E_MEMORY_ALLOC, 32)}, plugin=p, start_block=call.block.idx)
    ex.seed_dominating = True
    ex.run()
    bad = []
    for s, t, av in ex.rets:
        if s.env.get(("flag", "stored")):
            continue
        if f.d["ret"] == "i32" and av is not None and singleton(av) == E_MEMORY_ALLOC:
            continue
        bad.append((t, av, s))
    if not ex.rets:
        return "broken", "no return reachable after the call"
    if bad:
        t, av, s = bad[0]
        return "violation", "not propagated: with the result equal to E_MEMORY_ALLOC the function can return %s at %s (path lines %s)" % (
            explore.fmt(av), t.where(), explore.trail_lines(f, s.trail))
    return "ok", "with the result assumed E_MEMORY_ALLOC every one of the %d reachable returns yields 13 or records it in an iterator error field" % len(ex.rets)
