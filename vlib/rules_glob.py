"""R-GLOB: no mutable global state, only re-entrant external callees (DESIGN.md 2.4, C18)."""
import json, os
from . import ir, build
from .build import AnalysisBroken

LIBC = json.load(open(os.path.join(build.VERIF, "rules", "libc.json")))
PTR_DERIVE = ("getelementptr", "bitcast", "addrspacecast", "phi", "select")


def _intrinsic_effect(name):
    """(writes arg idx list, ok) for LLVM intrinsics"""
    if name.startswith("llvm.memcpy") or name.startswith("llvm.memmove") or name.startswith("llvm.memset"):
        return [0]
    if name.startswith("llvm.lifetime") or name.startswith("llvm.dbg") or name.startswith("llvm.assume") \
            or name.startswith("llvm.invariant") or name.startswith("llvm.experimental.noalias"):
        return []
    return None


def global_refs(o, acc):
    if o[0] == "g":
        acc.add(o[1])
    elif o[0] in ("agg",):
        for x in o[1]:
            global_refs(x, acc)
    elif o[0] == "ce":
        for x in o[3]:
            global_refs(x, acc)


def check(ctx, m, cfg):
    rule = "R-GLOB"
    defined_globals = [g for g in m.globals.values() if not g["decl"]]
    # which globals have their address inside another global's initialiser
    held_by = {}
    for g in defined_globals:
        acc = set()
        if "init" in g:
            global_refs(g["init"], acc)
        for t in acc:
            held_by.setdefault(t, set()).add(g["name"])
    callers = {}
    for f in m.defined():
        for i in f.all_insts():
            if i.op == "call" and i.callee:
                callers.setdefault(i.callee, []).append(i)

    nmut = 0
    for g in defined_globals:
        G = g["name"]
        if not g["const"]:
            nmut += 1
        gdesc = "%s (%s:%s%s)" % (g.get("dname", G), m.gfile(g), g.get("l", "?"),
                                  ", local static of %s" % g["infn"] if g.get("infn") else "")
        seen = set()
        work = []
        uses_examined = 0
        # roots: direct operand uses in every function
        for f in m.defined():
            for i in f.users(("g", G)):
                work.append((f, i, None))   # (function, user inst, via value key or None = the global itself)
        # roots: pointer loaded out of a global that holds &G
        holders = set()
        todo = list(held_by.get(G, ()))
        while todo:
            h = todo.pop()
            if h in holders:
                continue
            holders.add(h)
            todo.extend(held_by.get(h, ()))
        problems = []

        def operand_is(i, k, key):
            o = i.ops[k]
            if key is None:
                acc = set()
                global_refs(o, acc)
                if G in acc:
                    if o[0] == "ce" and o[1] not in ("getelementptr", "bitcast", "addrspacecast"):
                        problems.append(("broken", i, "address of %s used in a constant expression '%s'" % (G, o[1])))
                    return True
                return False
            return o[0] == key[0] and o[1] == key[1]

        def track_value(f, key):
            """all users of a derived pointer"""
            if (f.name, key) in seen:
                return
            seen.add((f.name, key))
            for u in f.users(key):
                work.append((f, u, key))

        # derived pointers loaded from holder tables
        for h in holders:
            for f in m.defined():
                hseen = set()
                hw = [(u, None) for u in f.users(("g", h))]
                while hw:
                    u, key = hw.pop()
                    if u.op in PTR_DERIVE:
                        k2 = ("i", u.id)
                        if k2 not in hseen:
                            hseen.add(k2)
                            hw.extend((x, k2) for x in f.users(k2))
                    elif u.op == "load" and u.type.endswith("*"):
                        track_value(f, ("i", u.id))

        while work:
            f, i, key = work.pop()
            uses_examined += 1
            op = i.op
            if op == "load":
                if i.d.get("vol") or i.d.get("atomic"):
                    problems.append(("violation", i, "volatile/atomic access to %s" % gdesc))
                # a pointer loaded out of G: handled from the holder side when G holds addresses
                continue
            if op == "store":
                if operand_is(i, 1, key):
                    problems.append(("violation", i, "store into library global %s" % gdesc))
                if operand_is(i, 0, key):
                    # the address of G is stored somewhere: follow local slots, flag anything else
                    dst = i.ops[1]
                    base = _base_of(f, dst)
                    if base and base[0] == "alloca":
                        for u in _loads_from_alloca(f, base[1]):
                            track_value(f, ("i", u.id))
                    elif base and base[0] == "global":
                        problems.append(("violation", i, "address of %s stored into global %s" % (gdesc, base[1])))
                    else:
                        if not g["const"]:
                            problems.append(("broken", i, "address of mutable global %s stored to non-local memory; cannot follow" % gdesc))
                continue
            if op in ("atomicrmw", "cmpxchg"):
                problems.append(("violation", i, "atomic read-modify-write on %s" % gdesc))
                continue
            if op in PTR_DERIVE:
                track_value(f, ("i", i.id))
                continue
            if op in ("icmp", "ptrtoint"):
                if op == "ptrtoint":
                    track_value(f, ("i", i.id))
                continue
            if op in ("add", "sub", "and", "or", "xor", "inttoptr", "trunc", "zext", "sext", "lshr", "shl"):
                track_value(f, ("i", i.id))
                continue
            if op == "ret":
                for c in callers.get(f.name, []):
                    track_value(c.fn, ("i", c.id))
                continue
            if op == "call":
                cal = i.callee
                if cal is None:
                    problems.append(("broken", i, "pointer into %s passed to an indirect call" % gdesc))
                    continue
                for k in range(len(i.ops)):
                    if not operand_is(i, k, key):
                        continue
                    cf = m.functions.get(cal)
                    if cf is not None and not cf.decl:
                        if k < len(cf.args):
                            at = cf.args[k]["attrs"]
                            if ("readonly" in at or "readnone" in at) and "nocapture" in at:
                                continue
                            if cf.has_body:
                                track_value(cf, ("a", k))
                                continue
                        problems.append(("broken", i, "pointer into %s passed to varargs/unknown parameter of %s" % (gdesc, cal)))
                        continue
                    w = _intrinsic_effect(cal)
                    if w is None:
                        e = LIBC["reentrant"].get(cal)
                        if e is None:
                            if cal.startswith("llvm."):
                                # value intrinsics (math) never take pointers
                                problems.append(("broken", i, "pointer into %s passed to unclassified intrinsic %s" % (gdesc, cal)))
                            else:
                                problems.append(("broken", i, "pointer into %s passed to unclassified external %s" % (gdesc, cal)))
                            continue
                        w = list(e.get("writes", []))
                        vf = e.get("varargs_write_from")
                        if vf is not None and k >= vf:
                            w.append(k)
                        if k in e.get("frees", []):
                            problems.append(("violation", i, "free() of library global %s" % gdesc))
                            continue
                    if k in w:
                        problems.append(("violation", i, "%s writes into library global %s" % (cal, gdesc)))
                continue
            if op in ("extractvalue", "insertvalue", "fcmp", "br", "switch"):
                continue
            problems.append(("broken", i, "unhandled use '%s' of a pointer into %s" % (op, gdesc)))

        inst = {"global": g.get("dname", G), "symbol": G, "const": g["const"], "config": cfg, "uses_examined": uses_examined}
        viol = [p for p in problems if p[0] == "violation"]
        brk = [p for p in problems if p[0] == "broken"]
        if g.get("tls") and viol:
            for p in viol:
                ctx.undecided_site(rule, "thread-local %s written at %s (not shared between threads; not a violation of C18)" % (gdesc, p[1].where()))
            viol = []
        for _, i, msg in viol:
            ctx.violation(rule, "write:%s:%s" % (g.get("dname", G), i.src_fn), msg + " in function %s" % i.src_fn, i.where(),
                          {"global": G, "function": i.src_fn, "inst": repr(i), "config": cfg})
        for _, i, msg in brk:
            ctx.broken(rule, "%s at %s" % (msg, i.where()))
        if not viol and not brk:
            ctx.ok(rule, inst, "every one of %d transitive uses is a plain load, compare, memcpy source or a readonly+nocapture argument" % uses_examined)
    ctx.note("mutable_globals_" + cfg, sorted(g.get("dname", g["name"]) for g in defined_globals if not g["const"]))
    ctx.note("globals_" + cfg, len(defined_globals))

    # ---- second half: external callees
    ext_seen = {}
    for f in m.defined():
        for i in f.all_insts():
            if i.op in ("call", "invoke"):
                cal = i.callee
                if cal is None:
                    ctx.broken(rule, "indirect call at %s: callee cannot be classified" % i.where())
                    continue
                cf = m.functions.get(cal)
                if cf is not None and not cf.decl:
                    continue
                ext_seen.setdefault(cal, []).append(i)
    for cal, sites in sorted(ext_seen.items()):
        if cal.startswith("llvm."):
            ctx.ok(rule, {"external": cal, "sites": len(sites), "config": cfg}, "LLVM intrinsic (no hidden state)")
            continue
        if cal in LIBC["stateful"]:
            for i in sites:
                ctx.violation(rule, "nonreentrant:%s:%s" % (cal, i.src_fn),
                              "call to %s, which keeps hidden static/process state (not re-entrant), in %s" % (cal, i.src_fn), i.where(),
                              {"callee": cal, "function": i.src_fn, "config": cfg})
        elif cal in LIBC["reentrant"] or (cfg == "prefix" and cal.startswith("vp_")):
            ctx.ok(rule, {"external": cal, "sites": len(sites), "config": cfg}, "classified re-entrant in rules/libc.json")
        else:
            ctx.broken(rule, "external callee '%s' (%s) is not classified in rules/libc.json" % (cal, sites[0].where()))
    # inline asm
    for f in m.defined():
        for i in f.all_insts():
            for o in i.ops:
                if o[0] == "asm":
                    ctx.broken(rule, "inline asm at %s" % i.where())
    return nmut


def _base_of(f, o, depth=0):
    """('alloca', id) | ('global', name) | ('arg', idx) | None"""
    while depth < 50:
        depth += 1
        if o[0] == "g":
            return ("global", o[1])
        if o[0] == "ce":
            acc = set()
            global_refs(o, acc)
            return ("global", sorted(acc)[0]) if acc else None
        if o[0] == "a":
            return ("arg", o[1])
        if o[0] != "i":
            return None
        i = f.insts[o[1]]
        if i.op == "alloca":
            return ("alloca", i.id)
        if i.op in ("getelementptr", "bitcast"):
            o = i.ops[0]
            continue
        return None
    return None


def _loads_from_alloca(f, aid):
    out = []
    seen = set()
    work = [("i", aid)]
    while work:
        k = work.pop()
        if k in seen:
            continue
        seen.add(k)
        for u in f.users(k):
            if u.op in ("getelementptr", "bitcast"):
                work.append(("i", u.id))
            elif u.op == "load":
                out.append(u)
            elif u.op == "call":
                # passed on: give up precision, treat the call's pointer results conservatively
                pass
    return out
