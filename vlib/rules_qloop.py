"""R-QLOOP: a predicate that quantifies over the holes of a polygon answers early only with the deciding constant (C07, C15).

`pointInsidePolygon` / `cellBoundaryInsidePolygon` are universal over the holes ("inside no hole"), `cellBoundaryCrossesPolygon` existential.  In a
bool-returning function, a loop bounded by `GeoPolygon.numHoles` may be left from its body only towards returns of ONE constant (the value a single
hole can decide); the opposite answer needs all holes and can only be given after the loop has run out.  A return reached from the loop body whose
value is not that constant - `return !pointInsideGeoLoop(hole i)` for the first hole whose box matches - answers for all holes after looking at
one (seeded C07-2).  The exits are followed path-sensitively (a `contains = false; break;` form is a constant on that path)."""
from . import ir, explore
from .explore import Explorer
from .build import AnalysisBroken

RULE = "R-QLOOP"


def _loops_over_holes(m, f):
    """[(header block, set of loop blocks)] for loops whose header compares a counter with a load of GeoPolygon.numHoles"""
    out = []
    for b in f.blocks:
        t = b.term
        if t.op != "br" or len(t.ops) != 3 or t.ops[0][0] != "i":
            continue
        c = f.insts[t.ops[0][1]]
        if c.op != "icmp":
            continue
        hit = False
        for o in c.ops:
            while o[0] == "i" and f.insts[o[1]].op in ("sext", "zext", "trunc", "freeze"):
                o = f.insts[o[1]].ops[0]
            if o[0] == "i" and f.insts[o[1]].op == "load":
                base, path = ir.field_path(m, f, f.insts[o[1]].ops[0])
                if path and path[-1][0] == "f" and path[-1][1] == "GeoPolygon" and path[-1][2] == "numHoles":
                    hit = True
        if not hit:
            continue
        # natural loop: blocks that reach the header through a back edge
        body = {b.idx}
        preds_in = [p for p in b.preds if _reaches(f, b.idx, p, avoid=None) and _dominated(f, b.idx, p)]
        todo = list(preds_in)
        while todo:
            x = todo.pop()
            if x in body:
                continue
            body.add(x)
            todo += f.blocks[x].preds
        if len(body) > 1:
            out.append((b.idx, body))
    return out


def _reaches(f, a, b, avoid):
    seen, todo = set(), [a]
    while todo:
        x = todo.pop()
        if x == b:
            return True
        if x in seen or x == avoid:
            continue
        seen.add(x)
        todo += f.blocks[x].succs()
    return False


def _dominated(f, h, x):
    """h dominates x"""
    if h == x:
        return True
    seen, todo = set(), [0]
    while todo:
        y = todo.pop()
        if y == x:
            return False
        if y in seen or y == h:
            continue
        seen.add(y)
        todo += f.blocks[y].succs()
    return True


def check(ctx, m, cfg, functions=None):
    n = 0
    for f in m.defined():
        if functions is not None and f.name not in functions:
            continue
        if f.d.get("ret") != "i1":
            continue
        for h, body in _loops_over_holes(m, f):
            n += 1
            inst = {"function": f.name, "loop_header": f.blocks[h].insts[0].where() if f.blocks[h].insts else f.where(), "config": cfg}
            exits = [(b, t) for b in sorted(body) if b != h for t in f.blocks[b].succs() if t not in body]
            vals = set()
            bad = None
            for b, t in exits:
                class P:
                    # only the paths that leave block b through the edge b -> t are of interest: every other continuation is ended at once
                    def on_inst(self, ex, s, i):
                        if len(s.trail) >= 2 and s.trail[1] != t:
                            return []
                        return None
                ex = Explorer(f, plugin=P(), start_block=b)
                ex.run()
                for s_, r_, av in ex.rets:
                    if len(s_.trail) < 2 or s_.trail[1] != t:
                        continue
                    sv = explore.singleton(av) if av is not None and av[0] == "int" else None
                    if sv is None:
                        bad = (r_, f.blocks[b].term)
                    else:
                        vals.add(sv)
            if bad is not None:
                ctx.violation(RULE, "qloop:%s" % f.name, "%s leaves its loop over the polygon's holes from inside the body (%s) with a return value that is not a constant: the answer for "
                              "all holes is given after looking at one" % (f.name, bad[1].where()), bad[1].where(), inst)
            elif len(vals) > 1:
                ctx.violation(RULE, "qloop:%s" % f.name, "%s leaves its loop over the polygon's holes early with both answers (%s)" % (f.name, sorted(vals)), f.where(), inst)
            else:
                if exits and not vals:
                    ctx.broken(RULE, "%s: no return is reached from the early exits of the hole loop (engine lost the path)" % f.name)
                    continue
                ctx.ok(RULE, inst, "%d early exit(s) from the hole loop, all returning the constant %s; the other answer is only given after the loop" % (len(exits), sorted(vals)[0] if vals else "-"))
    return n
