"""R-QLOOP: a predicate that quantifies over the holes of a polygon answers early only with the deciding constant (C07, C15).

`pointInsidePolygon` / `cellBoundaryInsidePolygon` are universal over the holes ("inside no hole"), `cellBoundaryCrossesPolygon` existential.  In a
bool-returning function, a loop bounded by `GeoPolygon.numHoles` may be left from its body only towards returns of ONE constant (the value a single
hole can decide); the opposite answer needs all holes and can only be given after the loop has run out.  A return reached from the loop body whose
value is not that constant - `return !pointInsideGeoLoop(hole i)` for the first hole whose box matches - answers for all holes after looking at
one (seeded C07-2).  The exits are followed path-sensitively (a `contains = false; break;` form is a constant on that path)."""
from . import ir, explore
from .explore import Explorer
from .build import AnalysisBroken

RULE = "R-QLOOP"


def _loops_over_holes(m, f):
    """[(header block, set of loop blocks)] for loops whose header compares a counter with a load of GeoPolygon.numHoles"""
    out = []
    for b in f.blocks:
        t = b.term
        if t.op != "br" or len(t.ops) != 3 or t.ops[0][0] != "i":
            continue
        c = f.insts[t.ops[0][1]]
        if c.op != "icmp":
            continue
        hit = False
        for o in c.ops:
            while o[0] == "i" and f.insts[o[1]].op in ("sext", "zext", "trunc", "freeze"):
                o = f.insts[o[1]].ops[0]
            if o[0] == "i" and f.insts[o[1]].op == "load":
                base, path = ir.field_path(m, f, f.insts[o[1]].ops[0])
                if path and path[-1][0] == "f" and path[-1][1] == "GeoPolygon" and path[-1][2] == "numHoles":
                    hit = True
        if not hit:
            continue
        # natural loop: blocks that reach the header through a back edge
        body = {b.idx}
        preds_in = [p for p in b.preds if _reaches(f, b.idx, p, avoid=None) and _dominated(f, b.idx, p)]
        todo = list(preds_in)
        while todo:
            x = todo.pop()
            if x in body:
                continue
            body.add(x)
            todo += f.blocks[x].preds
        if len(body) > 1:
            out.append((b.idx, body))
    return out


def _reaches(f, a, b, avoid):
    seen, todo = set(), [a]
    while todo:
        x = todo.pop()
        if x == b:
            return True
        if x in seen or x == avoid:
            continue
        seen.add(x)
        todo += f.blocks[x].succs()
    return False


def _dominated(f, h, x):
    """h dominates x"""
    if h == x:
        return True
    seen, todo = set(), [0]
    while todo:
        y = todo.pop()
        if y == x:
            return False
        if y in seen or y == h:
            continue
        seen.add(y)
        todo += f.blocks[y].succs()
    return True


def check(ctx, m, cfg, functions=None):
    n = 0
    for f in m.defined():
        if functions is not None and f.name not in functions:
            continue
        if f.d.get("ret") != "i1":
            continue
        for h, body in _loops_over_holes(m, f):
            n += 1
            inst = {"function": f.name, "loop_header": f.blocks[h].insts[0].where() if f.blocks[h].insts else f.where(), "config": cfg}
            exits = [(b, t) for b in sorted(body) if b != h for t in f.blocks[b].succs() if t not in body]
            vals = set()
            bad = None
            for b, t in exits:
                class P:
                    # only the paths that leave block b through the edge b -> t are of interest: every other continuation is ended at once
                    def on_inst(self, ex, s, i):
                        if len(s.trail) >= 2 and s.trail[1] != t:
                            return []
                        return None
                ex = Explorer(f, plugin=P(), start_block=b)
                ex.run()
                for s_, r_, av in ex.rets:
                    if len(s_.trail) < 2 or s_.trail[1] != t:
                        continue
                    sv = explore.singleton(av) if av is not None and av[0] == "int" else None
                    if sv is None:
                        bad = (r_, f.blocks[b].term)
                    else:
                        vals.add(sv)
            # an answer carried round the loop (`contains` updated per hole) may only move towards the deciding constant: the value on the back edge is
            # the old value, a constant, or a combination that keeps the old value (and / or / select with it) - never a function of this hole alone
            carried = None
            for p_ in f.blocks[h].phis():
                if p_.type not in ("i1", "i8", "i32") or not _feeds_return(f, p_.id, body):
                    continue
                if all(_strip_eq(f, o, p_.id) or pb not in body for o, pb in zip(p_.ops, p_.d["inc"])):
                    continue            # never changed inside the loop
                ab = _absorbing(f, h, body, p_)
                if ab is None:
                    carried = carried or (p_, None)
                elif not ab:
                    carried = (p_, "x")
            if carried is not None and carried[1] is not None:
                p_ = carried[0]
                w = f.blocks[h].term.where()
                ctx.violation(RULE, "qloop:%s:carried" % f.name, "%s updates the answer it returns after the loop over the polygon's holes in a way that has no absorbing value: whatever "
                              "an earlier hole decided can be undone by a later one (only the last hole counts)" % f.name, w, inst)
                continue
            if carried is not None:
                ctx.broken(RULE, "%s: the answer carried round the hole loop is updated in a form the rule cannot read" % f.name)
                continue
            if bad is not None:
                ctx.violation(RULE, "qloop:%s" % f.name, "%s leaves its loop over the polygon's holes from inside the body (%s) with a return value that is not a constant: the answer for "
                              "all holes is given after looking at one" % (f.name, bad[1].where()), bad[1].where(), inst)
            elif len(vals) > 1:
                ctx.violation(RULE, "qloop:%s" % f.name, "%s leaves its loop over the polygon's holes early with both answers (%s)" % (f.name, sorted(vals)), f.where(), inst)
            else:
                if exits and not vals:
                    ctx.broken(RULE, "%s: no return is reached from the early exits of the hole loop (engine lost the path)" % f.name)
                    continue
                ctx.ok(RULE, inst, "%d early exit(s) from the hole loop, all returning the constant %s; the other answer is only given after the loop" % (len(exits), sorted(vals)[0] if vals else "-"))
    return n


def _feeds_return(f, pid, body, depth=0):
    """the loop-carried value (or a cast / phi / select copy of it outside the loop) is returned"""
    seen, todo = set(), [pid]
    while todo:
        x = todo.pop()
        if x in seen:
            continue
        seen.add(x)
        for u in f.users(("i", x)):
            if u.op == "ret":
                return True
            if u.op in ("phi", "select", "zext", "trunc", "sext", "freeze", "and", "or", "xor", "icmp") and len(seen) < 40:
                todo.append(u.id)
    return False


def _strip_eq(f, o, pid):
    while o[0] == "i" and f.insts[o[1]].op in ("zext", "trunc", "sext", "freeze"):
        o = f.insts[o[1]].ops[0]
    return o[0] == "i" and o[1] == pid


def _absorbing(f, h, body, phi):
    """the constants c such that  old answer == c  implies  new answer == c  on every path round the loop (explored with the old answer fixed, the
    tests of the current hole unknown); None if a back edge cannot be evaluated"""
    w = int(phi.type[1:])
    back = [(o, pb) for o, pb in zip(phi.ops, phi.d["inc"]) if pb in body]
    lastof = {}
    for o, pb in back:
        ins = [x for x in f.blocks[pb].insts if x.op != "phi" and x is not f.blocks[pb].term]
        if not ins:
            return None
        lastof[ins[-1].id] = o
    out = set()
    for c in (0, 1):
        seen = []

        class P:
            def on_inst(self, ex, s, i):
                if i.block.idx not in body:
                    return []
                if i.block.idx == h and len(s.trail) > 1:
                    return []
                if i.id in lastof:
                    seen.append(ex.eval(lastof[i.id], s.env))
                return None
        ex = Explorer(f, assume={("i", phi.id): explore.const(c, w)}, plugin=P(), start_block=h)
        ex.run()
        if not seen:
            return None
        if all(av is not None and av[0] == "int" and explore.singleton(av) == c for av in seen):
            out.add(c)
    return out
