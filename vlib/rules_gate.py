"""R-GATE: a cell reaches the output only through the containment test of its own geometry (C07, C15: "returns ... exactly the cells whose
centre lies inside" - the half that is visible in the shape of the code: nothing is emitted untested).

Legacy `polygonToCells`: every store through `out` is edge-dominated by the true edge of `pointInsidePolygon(P, B, &c)`, where c was written by
`cellToLatLng(x, &c)` for the very value x that is stored, P is the polygon parameter and B the array filled by `bboxesFromGeoPolygon(P, B)`;
the slot written is the probed one and is not already holding that cell (the duplicate test).

Hierarchical `iterStepPolygonCompact` (behind polygonToCellsExperimental): each `iter->cell = x` (x not H3_NULL) is classified by the tests whose
true edge it is edge-dominated by:
    centre      pointInsidePolygon(.., &c),          c  from cellToLatLng(x, &c)
    full        cellBoundaryInsidePolygon(.., &b, ..), b  from cellToBoundary(x, &b)
    descendants cellBoundaryInsidePolygon(.., &bb, ..), bb from bboxToCellBoundary(&box), box from cellToBBox(x, &box, true)  (the box covers all children)
and the function is explored with the containment mode field of `iter->_flags` fixed: in mode CENTER only centre / descendants stores may be
reached, in mode FULL only full / descendants stores; in the two overlapping modes every path to a reachable store must pass the success edge of
one of the tests that mode admits (centre, polygon's first vertex lies in the cell, boundary crosses, ... - a disjunction).  A reachable store
without an admitted gate is a VIOLATION (a cell is emitted that was not
tested, or tested with another cell's geometry, or by the test of another mode).  Whether the tests themselves are geometrically right is not
decided here."""
from . import ir, explore
from .explore import Explorer, const
from .build import AnalysisBroken

RULE = "R-GATE"
MODES = {0: ("CENTER", {"centre", "descendants"}), 1: ("FULL", {"full", "descendants"}),
         2: ("OVERLAPPING", {"centre", "vertexcell", "crosses", "descendants"}),
         3: ("OVERLAPPING_BBOX", {"centre", "vertexcell", "full", "crosses", "descendants", "box-contains-polygon", "box-corner-inside", "box-crosses"})}
# the containment tests take all their arguments as pointers to const (polygonAlgos.h / polygon.h); LLVM does not always infer `readonly` for them
READERS = ("pointInsidePolygon", "cellBoundaryInsidePolygon", "cellBoundaryCrossesPolygon")


def _strip(f, o):
    while o[0] == "i" and f.insts[o[1]].op in ("sext", "zext", "trunc", "freeze", "bitcast"):
        o = f.insts[o[1]].ops[0]
    return o


def _root(m, f, o):
    return ir.field_path(m, f, o)[0]


def _edge_dominates(f, src, dst, target):
    """every path from the entry to block `target` uses the edge src -> dst"""
    seen, todo = set(), [0]
    while todo:
        x = todo.pop()
        if x == target:
            return False
        if x in seen:
            continue
        seen.add(x)
        for s_ in f.blocks[x].succs():
            if x == src and s_ == dst:
                continue
            todo.append(s_)
    return True


def _true_edges(f, c):
    """edges taken exactly when call c returned non-zero: [(src block, dst block)]"""
    out = []
    conds = {c.id: True}
    for u in f.users(("i", c.id)):
        if u.op == "icmp" and u.ops[1][0] == "c" and u.ops[1][1] == 0 and u.pred in ("ne", "eq"):
            conds[u.id] = (u.pred == "ne")
        elif u.op in ("zext", "trunc"):
            for v in f.users(("i", u.id)):
                if v.op == "icmp" and v.ops[1][0] == "c" and v.ops[1][1] == 0 and v.pred in ("ne", "eq"):
                    conds[v.id] = (v.pred == "ne")
    for b in f.blocks:
        t = b.term
        if t.op == "br" and len(t.ops) == 3 and t.ops[0][0] == "i" and t.ops[0][1] in conds:
            tb, fb = t.ops[2][1], t.ops[1][1]
            if tb != fb:
                out.append((b.idx, tb if conds[t.ops[0][1]] else fb))
    return out


def _writers(m, f, A):
    """calls / stores that write the local object A (alloca id)"""
    out = []
    for i in f.all_insts():
        if i.op == "store" and _root(m, f, i.ops[1]) == ("i", A):
            out.append(i)
        elif i.op == "call" and not (i.callee or "").startswith("llvm.dbg") and not (i.callee or "").startswith("llvm.lifetime"):
            cal = m.functions.get(i.callee)
            for k, o in enumerate(i.ops):
                if o[0] == "i" and _root(m, f, o) == ("i", A) and f.insts[o[1]].type.endswith("*"):
                    ro = cal is not None and k < len(cal.args) and "readonly" in (cal.args[k].get("attrs") or [])
                    if (i.callee or "").startswith("llvm.memcpy") and k == 1:
                        ro = True
                    if i.callee in READERS:
                        ro = True
                    if not ro:
                        out.append(i)
    return out


def _sole_writer(m, f, A, callee, argk):
    """the single call `callee(.., A at position argk, ..)` that writes A, else None"""
    ws = _writers(m, f, A)
    if len(ws) != 1 or ws[0].op != "call" or ws[0].callee != callee:
        return None
    w = ws[0]
    if argk >= len(w.ops) or _root(m, f, w.ops[argk]) != ("i", A):
        return None
    return w


def _local(m, f, o):
    r = _root(m, f, o)
    return r[1] if r[0] == "i" and f.insts[r[1]].op == "alloca" else None


def _box_of(m, f, X, value, children):
    """local BBox X was written only by cellToBBox(value, X, children)"""
    wb = _sole_writer(m, f, X, "cellToBBox", 1)
    return wb is not None and _strip(f, wb.ops[0]) == value and wb.ops[2][0] == "c" and wb.ops[2][1] == (1 if children else 0)


def _boxboundary_of(m, f, B, value):
    """local CellBoundary B was written only by bboxToCellBoundary(box) with box = cellToBBox(value, ., true)"""
    w = _sole_writer(m, f, B, "bboxToCellBoundary", 0)
    if w is None:
        return False
    X = _local(m, f, w.ops[1])
    return X is not None and _box_of(m, f, X, value, True)


def _gate_kind(m, f, g, value):
    """kind of the test g (a call, or an equality compare) for the stored value (see module doc), else None"""
    if g.op == "icmp":
        # polygonCell == cell, polygonCell = latLngToCell(first polygon vertex)
        if g.pred != "eq":
            return None
        for x, y in ((g.ops[0], g.ops[1]), (g.ops[1], g.ops[0])):
            if _strip(f, y) == value and x[0] == "i" and f.insts[x[1]].op == "load":
                L = _local(m, f, f.insts[x[1]].ops[0])
                if L is not None and _sole_writer(m, f, L, "latLngToCell", 2) is not None:
                    return "vertexcell"
        return None
    if g.callee == "pointInsidePolygon":
        C = _local(m, f, g.ops[2])
        if C is None:
            return None
        w = _sole_writer(m, f, C, "cellToLatLng", 1)
        if w is not None and ir.field_path(m, f, g.ops[2])[1] == () and _strip(f, w.ops[0]) == value:
            return "centre"
        if _boxboundary_of(m, f, C, value):
            return "box-corner-inside"
        return None
    if g.callee in ("cellBoundaryInsidePolygon", "cellBoundaryCrossesPolygon"):
        B = _local(m, f, g.ops[2])
        if B is None:
            return None
        w = _sole_writer(m, f, B, "cellToBoundary", 1)
        if w is not None and _strip(f, w.ops[0]) == value:
            return "full" if g.callee == "cellBoundaryInsidePolygon" else "crosses"
        if _boxboundary_of(m, f, B, value):
            return "descendants" if g.callee == "cellBoundaryInsidePolygon" else "box-crosses"
        return None
    if g.callee == "bboxContainsBBox":
        X = _local(m, f, g.ops[0])
        if X is not None and _box_of(m, f, X, value, True):
            return "box-contains-polygon"
        return None
    return None


def _success_edges(f, g):
    if g.op == "icmp":
        out = []
        for b in f.blocks:
            t = b.term
            if t.op == "br" and len(t.ops) == 3 and t.ops[0] == ["i", g.id] and t.ops[1][1] != t.ops[2][1]:
                out.append((b.idx, t.ops[2][1]))
        return out
    return _true_edges(f, g)


def _gated(f, edges, target):
    """every path from the entry to block `target` uses one of the edges"""
    es = set(edges)
    seen, todo = set(), [0]
    while todo:
        x = todo.pop()
        if x == target:
            return False
        if x in seen:
            continue
        seen.add(x)
        for s_ in f.blocks[x].succs():
            if (x, s_) not in es:
                todo.append(s_)
    return True


def check(ctx, m, cfg):
    n = 0
    for part in (_legacy, _hier):
        try:
            n += part(ctx, m, cfg)
        except AnalysisBroken as e:
            ctx.broken(RULE, "%s: %s" % (part.__name__.strip("_"), e))
            n += 1
    return n


def _legacy(ctx, m, cfg):
    f = m.fn("polygonToCells")
    ok_ = f.arg_index("out")
    pk = f.arg_index("geoPolygon")
    if ok_ is None or pk is None:
        raise AnalysisBroken("parameters out / geoPolygon of polygonToCells not found")
    stores = [i for i in f.all_insts() if i.op == "store" and _root(m, f, i.ops[1]) == ("a", ok_)]
    if not stores:
        raise AnalysisBroken("polygonToCells has no store through out")
    gates = [c for c in f.all_insts() if c.op == "call" and c.callee == "pointInsidePolygon"]
    n = 0
    for st in stores:
        n += 1
        inst = {"function": f.name, "store": st.where(), "config": cfg}
        v = _strip(f, st.ops[0])
        if v[0] == "c" and v[1] == 0:
            ctx.ok(RULE, inst, "stores H3_NULL")
            continue
        good = None
        why = "no pointInsidePolygon test whose success leads to the store"
        for g in gates:
            if not any(_edge_dominates(f, a, b, st.block.idx) for a, b in _true_edges(f, g)):
                continue
            if _gate_kind(m, f, g, v) != "centre":
                why = "the point tested at %s is not the centre (cellToLatLng) of the cell that is stored" % g.where()
                continue
            if _strip(f, g.ops[0]) != ["a", pk]:
                why = "the polygon tested at %s is not the parameter" % g.where()
                continue
            B = _root(m, f, g.ops[1])
            fills = [c for c in f.all_insts() if c.op == "call" and c.callee == "bboxesFromGeoPolygon" and _strip(f, c.ops[0]) == ["a", pk] and _root(m, f, c.ops[1]) == B]
            if not fills:
                why = "the bounding boxes passed at %s were not filled from the polygon parameter" % g.where()
                continue
            good = g
        if good is None:
            ctx.violation(RULE, "legacy:%s" % f.name, "polygonToCells writes a cell to out at %s although %s" % (st.where(), why), st.where(), inst)
            continue
        # the slot: out[loc] with the duplicate test on the same loc
        gep = f.insts[st.ops[1][1]] if st.ops[1][0] == "i" else None
        dup = False
        if gep is not None and gep.op == "getelementptr" and len(gep.ops) == 2:
            loc = _strip(f, gep.ops[1])
            for c in f.all_insts():
                if c.op == "icmp" and c.pred in ("eq", "ne"):
                    a, b = _strip(f, c.ops[0]), _strip(f, c.ops[1])
                    for x, y in ((a, b), (b, a)):
                        if y == v and x[0] == "i" and f.insts[x[1]].op == "load":
                            lg = f.insts[x[1]].ops[0]
                            lg = f.insts[lg[1]] if lg[0] == "i" else None
                            if lg is not None and lg.op == "getelementptr" and lg.ops[0] == gep.ops[0] and _strip(f, lg.ops[1]) == loc:
                                for bb in f.blocks:
                                    t = bb.term
                                    if t.op == "br" and len(t.ops) == 3 and t.ops[0] == ["i", c.id]:
                                        ne_dst = t.ops[2][1] if c.pred == "ne" else t.ops[1][1]
                                        if _edge_dominates(f, bb.idx, ne_dst, st.block.idx):
                                            dup = True
        if not dup:
            ctx.broken(RULE, "polygonToCells: the store at %s is not preceded by a test that the slot does not already hold the cell" % st.where())
            continue
        ctx.ok(RULE, inst, "reached only after pointInsidePolygon(geoPolygon, bboxes filled from it, centre of the stored cell) succeeded, into the probed slot that does not hold the cell yet")
    return n


def _hier(ctx, m, cfg):
    f = m.fn("iterStepPolygonCompact")
    ik = 0
    stores = []
    for i in f.all_insts():
        if i.op == "store":
            base, path = ir.field_path(m, f, i.ops[1])
            if base == ("a", ik) and len(path) == 1 and path[0][0] == "f" and path[0][2] == "cell":
                v = _strip(f, i.ops[0])
                if not (v[0] == "c" and v[1] == 0):
                    stores.append((i, v))
    if len(stores) < 3:
        raise AnalysisBroken("iterStepPolygonCompact stores a cell into iter->cell at %d places (expected several)" % len(stores))
    gates = [c for c in f.all_insts() if (c.op == "call" and c.callee in ("pointInsidePolygon", "cellBoundaryInsidePolygon", "cellBoundaryCrossesPolygon", "bboxContainsBBox"))
             or (c.op == "icmp" and c.pred == "eq" and c.type == "i1")]
    # per store: the success edges of the tests on the stored cell's own geometry, by kind
    edges = {}
    for st, v in stores:
        ek = {}
        for g in gates:
            k = _gate_kind(m, f, g, v)
            if k:
                ek.setdefault(k, []).extend(_success_edges(f, g))
        edges[st.id] = ek
    kinds = {st.id: {k for k, es in edges[st.id].items() if es and _gated(f, es, st.block.idx)} for st, v in stores}
    flag_loads = []
    for i in f.all_insts():
        if i.op == "load":
            base, path = ir.field_path(m, f, i.ops[0])
            if base == ("a", ik) and len(path) == 1 and path[0][0] == "f" and path[0][2] == "_flags":
                flag_loads.append(i)
    if not flag_loads:
        raise AnalysisBroken("iterStepPolygonCompact does not read iter->_flags")
    n = 0
    for mode, (name, admitted) in MODES.items():
        n += 1
        reached = set()

        class P:
            def on_inst(self, ex, s, i):
                if i.op == "store" and i.id in kinds:
                    reached.add(i.id)
                return None
        # every value of the flags word whose containment-mode field (low 4 bits) is the mode
        adef = {l.id: explore.mk(32, [((hi << 4) | mode, (hi << 4) | mode) for hi in range(64)] ) for l in flag_loads}
        for l in flag_loads:
            for u in f.users(("i", l.id)):
                if u.op == "and" and u.ops[1][0] == "c" and u.ops[1][1] == 15:
                    adef[u.id] = const(mode, 32)
        Explorer(f, assume_def=adef, plugin=P()).run()
        inst = {"function": f.name, "mode": name, "stores_reached": len(reached), "stores_total": len(stores), "config": cfg}
        if not reached:
            raise AnalysisBroken("no store of a cell is reachable in mode %s (engine lost the path)" % name)
        def gated(st):
            es = [e for k, lst in edges[st.id].items() if k in admitted for e in lst]
            return bool(es) and _gated(f, es, st.block.idx)
        bad = [(st, v) for st, v in stores if st.id in reached and not gated(st)]
        if bad:
            st, v = bad[0]
            ctx.violation(RULE, "hier:%s" % name, "iterStepPolygonCompact, containment mode %s: the cell stored into iter->cell at %s has passed %s, not %s on its own geometry"
                          % (name, st.where(), " / ".join(sorted(kinds[st.id])) + " test" if kinds[st.id] else "no containment test", " or ".join(sorted(admitted))), st.where(), inst)
        else:
            ctx.ok(RULE, inst, "mode %s: %d of the %d places that emit a cell are reachable; every path to each of them passes the success edge of a test (%s) on the emitted cell's own geometry"
                   % (name, len(reached), len(stores), " / ".join(sorted(admitted))))
    return n
