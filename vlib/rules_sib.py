"""R-SIB: sibling agreement on the hole / bounding-box pairing convention (C15; after Engler's cross-checking).

`bboxesFromGeoPolygon` stores the box of the outer loop at bboxes[0] and the box of hole i at bboxes[i + 1].
Every call that receives both `&polygon->holes[X]` and `&bboxes[Y]` must use Y = X + 1 (readers and the writer alike)."""
from . import ir
from .build import AnalysisBroken


def _strip(f, o):
    while o[0] == "i" and f.insts[o[1]].op in ("sext", "zext", "trunc", "freeze"):
        o = f.insts[o[1]].ops[0]
    return o


def _hole_index(m, f, o):
    """index X if o is &<load of GeoPolygon.holes>[X]"""
    if o[0] != "i":
        return None
    g = f.insts[o[1]]
    while g.op == "bitcast" and g.ops[0][0] == "i":
        g = f.insts[g.ops[0][1]]
    if g.op != "getelementptr" or g.d.get("srcty") != "%struct.GeoLoop" or g.ops[0][0] != "i":
        return None
    ld = f.insts[g.ops[0][1]]
    if ld.op != "load":
        return None
    base, path = ir.field_path(m, f, ld.ops[0])
    if path and path[-1][0] == "f" and path[-1][1] == "GeoPolygon" and path[-1][2] == "holes":
        return _strip(f, g.ops[1])
    return None


def _bbox_index(m, f, o):
    """index Y if o is &<BBox* parameter or loaded BBox array>[Y]; ('c',0) for the array itself"""
    if o[0] == "a" and f.args[o[1]]["type"] == "%struct.BBox*":
        return ["c", 0, 64]
    if o[0] != "i":
        return None
    g = f.insts[o[1]]
    if g.op != "getelementptr" or g.d.get("srcty") != "%struct.BBox" or len(g.ops) != 2:
        return None
    return _strip(f, g.ops[1])


def check(ctx, m, cfg, rule="R-SIB"):
    n = 0
    for f in m.defined():
        for i in f.all_insts():
            if i.op != "call" or not i.callee or i.callee.startswith("llvm."):
                continue
            X = Y = None
            for o in i.ops:
                hx = _hole_index(m, f, o)
                if hx is not None:
                    X = hx
                by = _bbox_index(m, f, o) if o[0] == "i" else None
                if by is not None:
                    Y = by
            if X is None or Y is None:
                continue
            n += 1
            inst = {"function": i.src_fn, "callee": i.callee, "at": i.where(), "config": cfg}
            good = False
            if Y[0] == "i":
                d = f.insts[Y[1]]
                if d.op == "add" and d.ops[1][0] == "c" and d.ops[1][1] == 1 and _strip(f, d.ops[0]) == X:
                    good = True
            if X[0] == "c" and Y[0] == "c" and Y[1] == X[1] + 1:
                good = True
            if good:
                ctx.ok(rule, inst, "hole X is paired with bboxes[X + 1]")
            else:
                ctx.violation(rule, "holebbox:%s:%s" % (i.src_fn, i.callee),
                              "%s passes &holes[X] together with a bounding box that is not bboxes[X + 1] to %s; bboxesFromGeoPolygon stores hole i's box at index i + 1 (index 0 is the outer loop)"
                              % (i.src_fn, i.callee), i.where(), inst)
    ctx.floor(rule, "calls pairing a hole with a bounding box", n, 4)
    return n
