"""R-SIB: sibling agreement on the hole / bounding-box pairing convention (C15; after Engler's cross-checking).

`bboxesFromGeoPolygon` stores the box of the outer loop at bboxes[0] and the box of hole i at bboxes[i + 1].
Every call that receives both `&polygon->holes[X]` and `&bboxes[Y]` must use Y = X + 1 (readers and the writer alike)."""
from . import ir
from .build import AnalysisBroken


def _strip(f, o):
    while o[0] == "i" and f.insts[o[1]].op in ("sext", "zext", "trunc", "freeze"):
        o = f.insts[o[1]].ops[0]
    return o


def _stepped(f, o):
    """(initial pointer operand, header block) when o is a pointer that a loop advances by one element per iteration: phi(init, gep(phi, 1))"""
    if o[0] != "i":
        return None
    p = f.insts[o[1]]
    if p.op != "phi" or len(p.ops) != 2:
        return None
    init = None
    step = False
    for x in p.ops:
        d = f.insts[x[1]] if x[0] == "i" else None
        if d is not None and d.op == "getelementptr" and len(d.ops) == 2 and d.ops[0] == ["i", p.id] and d.ops[1][0] == "c" and d.ops[1][1] == 1:
            step = True
        else:
            init = x
    return (init, p.block.idx) if step and init is not None else None


def _hole_index(m, f, o):
    """index X if o is &<load of GeoPolygon.holes>[X]"""
    if o[0] != "i":
        return None
    st = _stepped(f, o)
    if st is not None:
        # `hole++` from polygon->holes: element number = iteration number of that loop
        ld = f.insts[st[0][1]] if st[0][0] == "i" else None
        if ld is not None and ld.op == "load":
            base, path = ir.field_path(m, f, ld.ops[0])
            if path and path[-1][0] == "f" and path[-1][1] == "GeoPolygon" and path[-1][2] == "holes":
                return ["iter", st[1], 0]
        return None
    g = f.insts[o[1]]
    while g.op == "bitcast" and g.ops[0][0] == "i":
        g = f.insts[g.ops[0][1]]
    if g.op != "getelementptr" or g.d.get("srcty") != "%struct.GeoLoop" or g.ops[0][0] != "i":
        return None
    ld = f.insts[g.ops[0][1]]
    if ld.op != "load":
        return None
    base, path = ir.field_path(m, f, ld.ops[0])
    if path and path[-1][0] == "f" and path[-1][1] == "GeoPolygon" and path[-1][2] == "holes":
        return _strip(f, g.ops[1])
    return None


def _bbox_index(m, f, o):
    """index Y if o is &<BBox* parameter or loaded BBox array>[Y]; ('c',0) for the array itself"""
    if o[0] == "a" and f.args[o[1]]["type"] == "%struct.BBox*":
        return ["c", 0, 64]
    if o[0] != "i":
        return None
    st = _stepped(f, o)
    if st is not None:
        # `box++` from &bboxes[c]: element number = iteration number + c
        y0 = _bbox_index(m, f, st[0]) if st[0][0] == "i" else (["c", 0, 64] if st[0][0] == "a" and f.args[st[0][1]]["type"] == "%struct.BBox*" else None)
        if y0 is not None and y0[0] == "c":
            return ["iter", st[1], ir.cint_signed(y0)]
        return None
    g = f.insts[o[1]]
    if g.op != "getelementptr" or g.d.get("srcty") != "%struct.BBox" or len(g.ops) != 2:
        return None
    # &(&bboxes[a])[b] (an alias such as `holeBBoxes = &bboxes[1]`): the subscripts add up
    terms = [_strip(f, g.ops[1])]
    b = g.ops[0]
    while b[0] == "i" and f.insts[b[1]].op == "getelementptr" and f.insts[b[1]].d.get("srcty") == "%struct.BBox" and len(f.insts[b[1]].ops) == 2:
        terms.append(_strip(f, f.insts[b[1]].ops[1]))
        b = f.insts[b[1]].ops[0]
    # the innermost base may itself be a pointer that the loop steps (`box = phi(bboxes, box + 1)`, used as box + 1): iteration number + constants
    sb = _stepped(f, b) if b[0] == "i" else None
    if sb is not None and all(t[0] == "c" for t in terms):
        y0 = _bbox_index(m, f, sb[0]) if sb[0][0] == "i" else (["c", 0, 64] if sb[0][0] == "a" and f.args[sb[0][1]]["type"] == "%struct.BBox*" else None)
        if y0 is not None and y0[0] == "c":
            return ["iter", sb[1], ir.cint_signed(y0) + sum(ir.cint_signed(t) for t in terms)]
        return None
    return terms[0] if len(terms) == 1 else ["sum", terms]


def check(ctx, m, cfg, rule="R-SIB"):
    n = 0
    for f in m.defined():
        for i in f.all_insts():
            if i.op != "call" or not i.callee or i.callee.startswith("llvm."):
                continue
            X = Y = None
            for o in i.ops:
                hx = _hole_index(m, f, o)
                if hx is not None:
                    X = hx
                by = _bbox_index(m, f, o) if o[0] == "i" else None
                if by is not None:
                    Y = by
            if X is None or Y is None:
                continue
            n += 1
            inst = {"function": i.src_fn, "callee": i.callee, "at": i.where(), "config": cfg}
            # both subscripts as (symbolic base, constant offset): Y = X + 1 whatever the base (i and i+1, h-1 and h, ...)
            def lin(o, depth=0):
                if o[0] == "iter":
                    return (("iter", o[1]), o[2])           # pointers stepped in lockstep by the same loop
                o = _strip(f, o)
                if o[0] == "c":
                    return (None, ir.cint_signed(o))
                if o[0] == "i" and depth < 6:
                    d = f.insts[o[1]]
                    if d.op in ("add", "sub") and d.ops[1][0] == "c":
                        b_, c_ = lin(d.ops[0], depth + 1)
                        k_ = ir.cint_signed(d.ops[1])
                        return (b_, c_ + (k_ if d.op == "add" else -k_))
                    if d.op == "add" and d.ops[0][0] == "c":
                        b_, c_ = lin(d.ops[1], depth + 1)
                        return (b_, c_ + ir.cint_signed(d.ops[0]))
                return (tuple(o[:2]), 0)
            def linsum(o):
                if o[0] != "sum":
                    return lin(o)
                base, off = None, 0
                for t in o[1]:
                    b_, c_ = lin(t)
                    off += c_
                    if b_ is not None:
                        if base is not None:
                            return None
                        base = b_
                return (base, off)
            lx, ly = lin(X), linsum(Y)
            if ly is None:
                ctx.broken(rule, "%s: the bounding-box subscript at %s has more than one symbolic term" % (i.src_fn, i.where()))
                continue
            good = lx[0] == ly[0] and ly[1] == lx[1] + 1
            if good:
                ctx.ok(rule, inst, "hole X is paired with bboxes[X + 1]")
            else:
                ctx.violation(rule, "holebbox:%s:%s" % (i.src_fn, i.callee),
                              "%s passes &holes[X] together with a bounding box that is not bboxes[X + 1] to %s; bboxesFromGeoPolygon stores hole i's box at index i + 1 (index 0 is the outer loop)"
                              % (i.src_fn, i.callee), i.where(), inst)
    ctx.floor(rule, "calls pairing a hole with a bounding box", n, 4)
    return n


# ---------------------------------------------------------------------------------------------------------------
# R-SIB hashmod: an open-addressing probe must wrap around with the modulus it was started with.
#   loc = key % M;  while (occupied) loc = (loc + 1) % M';      requires M' == M
# (the table is later scanned / was sized by M; a probe that wraps at another bound either leaves the table or parks
#  entries where the scan never looks).  Instances are found, not listed: every `rem(phi + 1, M')` whose phi is also
# fed by a `rem(key, M)`.
def _same_value(f, a, b, depth=0):
    a, b = _strip(f, a), _strip(f, b)
    if a == b:
        return True
    if a[0] == "c" and b[0] == "c":
        return a[1] == b[1]
    if a[0] == "i" and b[0] == "i" and depth < 6:
        x, y = f.insts[a[1]], f.insts[b[1]]
        if x.op == "load" and y.op == "load" and x.ops[0] == y.ops[0] and x.ops[0][0] == "i" and f.insts[x.ops[0][1]].op == "alloca":
            # a local that is written by exactly one call (its initialiser) and otherwise only read
            writers = 0
            for u in f.users(x.ops[0]):
                if u.op == "load":
                    continue
                if u.op == "bitcast" and all(v.op == "call" and (v.callee or "").startswith("llvm.lifetime") for v in f.users(("i", u.id))):
                    continue
                if u.op == "call" and not (u.callee or "").startswith("llvm."):
                    writers += 1
                    continue
                return False
            return writers == 1
        if x.op == y.op and len(x.ops) == len(y.ops) and x.op not in ("phi", "load", "call", "alloca"):
            return all(_same_value(f, p, q, depth + 1) for p, q in zip(x.ops, y.ops))
    return False


def _name_of(f, o):
    o = _strip(f, o)
    if o[0] == "a":
        return f.args[o[1]]["name"]
    if o[0] == "i":
        return "%" + (f.insts[o[1]].name or str(o[1]))
    if o[0] == "c":
        return str(o[1])
    return "?"


def _wrap_select(f, s):
    """(increment instruction, wrap bound operand) when s is `select (inc == M'), 0, inc` / `select (inc != M'), inc, 0` / uge,ult forms, inc = x + 1"""
    if s.op != "select" or s.ops[0][0] != "i":
        return None
    c = f.insts[s.ops[0][1]]
    if c.op != "icmp":
        return None
    tv, fv = _strip(f, s.ops[1]), _strip(f, s.ops[2])
    if c.pred in ("eq", "uge", "sge") and tv[0] == "c" and tv[1] == 0 and fv[0] == "i":
        inc = f.insts[fv[1]]
    elif c.pred in ("ne", "ult", "slt") and fv[0] == "c" and fv[1] == 0 and tv[0] == "i":
        inc = f.insts[tv[1]]
    else:
        return None
    if inc.op != "add" or not (inc.ops[1][0] == "c" and inc.ops[1][1] == 1):
        return None
    if _strip(f, c.ops[0]) != ["i", inc.id]:
        return None
    return inc, c.ops[1]


def check_hashmod(ctx, m, cfg, only_fns=None, rule="R-SIB"):
    n = 0
    for f in m.defined():
        # the same probe written without %:  loc++; if (loc == M') loc = 0;
        for s in f.all_insts():
            ws = _wrap_select(f, s)
            if ws is None:
                continue
            inc, bound = ws
            p = _strip(f, inc.ops[0])
            if p[0] != "i" or f.insts[p[1]].op not in ("phi", "select"):
                continue
            web, todo = set(), [p[1], s.id]
            while todo:
                k = todo.pop()
                if k in web:
                    continue
                web.add(k)
                for o in f.insts[k].ops[(1 if f.insts[k].op == "select" else 0):]:
                    o = _strip(f, o)
                    if o[0] == "i" and f.insts[o[1]].op in ("phi", "select") and _wrap_select(f, f.insts[o[1]]) is None:
                        todo.append(o[1])
                for u in f.users(("i", k)):
                    if u.op in ("phi", "select") and ["i", k] in [list(_strip(f, x)[:2]) for x in u.ops[(1 if u.op == "select" else 0):]]:
                        todo.append(u.id)
            feeds = []
            for k in web:
                for o in f.insts[k].ops[(1 if f.insts[k].op == "select" else 0):]:
                    o = _strip(f, o)
                    if not (o[0] == "i" and o[1] in web):
                        feeds.append(o)
            inits = [f.insts[x[1]] for x in feeds if x[0] == "i" and f.insts[x[1]].op in ("srem", "urem")]
            if not inits:
                continue
            if not any(u.op == "getelementptr" for k in web for u in f.users(("i", k))):
                continue
            src = s.src_fn
            if only_fns is not None and src not in only_fns:
                continue
            for i0 in inits:
                n += 1
                inst = {"function": src, "probe_step_at": s.where(), "probe_start_at": i0.where(), "form": "increment and wrap by comparison", "config": cfg}
                if _same_value(f, bound, i0.ops[1]):
                    ctx.ok(rule, inst, "probe starts at key %% %s and wraps to 0 when it reaches the same %s" % (_name_of(f, i0.ops[1]), _name_of(f, bound)))
                else:
                    ctx.violation(rule, "hashmod:%s:%s" % (src, _name_of(f, i0.ops[1])),
                                  "%s: the hash probe starts at key %% %s (%s) but wraps around when it reaches %s; slots beyond the starting modulus are never "
                                  "scanned / may lie outside the table" % (src, _name_of(f, i0.ops[1]), i0.where(), _name_of(f, bound)), s.where(), inst)
        for s in f.all_insts():
            if s.op not in ("srem", "urem"):
                continue
            a = _strip(f, s.ops[0])
            if a[0] != "i":
                continue
            inc = f.insts[a[1]]
            if inc.op != "add" or not (inc.ops[1][0] == "c" and inc.ops[1][1] == 1):
                continue
            p = _strip(f, inc.ops[0])
            if p[0] != "i" or f.insts[p[1]].op != "phi":
                continue
            # the web of phis the probe position lives in (loop-carried copies through inner joins)
            web, todo = set(), [p[1]]
            while todo:
                k = todo.pop()
                if k in web:
                    continue
                web.add(k)
                for o in f.insts[k].ops:
                    o = _strip(f, o)
                    if o[0] == "i" and f.insts[o[1]].op == "phi":
                        todo.append(o[1])
                for u in f.users(("i", k)):
                    if u.op == "phi":
                        todo.append(u.id)
            feeds = [_strip(f, o) for k in web for o in f.insts[k].ops]
            feeds = [x for x in feeds if not (x[0] == "i" and x[1] in web)]
            if s.id not in [x[1] for x in feeds if x[0] == "i"]:
                continue
            inits = [f.insts[x[1]] for x in feeds if x[0] == "i" and x[1] != s.id and f.insts[x[1]].op in ("srem", "urem")]
            inits = [i0 for i0 in inits if not (_strip(f, i0.ops[0])[0] == "i" and f.insts[_strip(f, i0.ops[0])[1]].op == "add"
                                                and _strip(f, f.insts[_strip(f, i0.ops[0])[1]].ops[0])[0] == "i" and _strip(f, f.insts[_strip(f, i0.ops[0])[1]].ops[0])[1] in web)]
            if not inits:
                continue
            # a probe position subscripts memory
            def _indexes(k, depth=0):
                for u in f.users(("i", k)):
                    if u.op == "getelementptr":
                        return True
                    if u.op in ("sext", "zext", "trunc") and depth < 3 and _indexes(u.id, depth + 1):
                        return True
                return False
            if not any(_indexes(k) for k in web):
                continue
            src = s.src_fn
            if only_fns is not None and src not in only_fns:
                continue
            for i0 in inits:
                n += 1
                inst = {"function": src, "probe_step_at": s.where(), "probe_start_at": i0.where(), "config": cfg}
                if _same_value(f, s.ops[1], i0.ops[1]):
                    ctx.ok(rule, inst, "probe starts at key %% %s and wraps at the same %s" % (_name_of(f, i0.ops[1]), _name_of(f, s.ops[1])))
                else:
                    ctx.violation(rule, "hashmod:%s:%s" % (src, _name_of(f, i0.ops[1])),
                                  "%s: the hash probe starts at key %% %s (%s) but wraps around at %s; slots beyond the starting modulus are never "
                                  "scanned / may lie outside the table" % (src, _name_of(f, i0.ops[1]), i0.where(), _name_of(f, s.ops[1])), s.where(), inst)
    return n


# ---------------------------------------------------------------------------------------------------------------
# R-SIB candbbox: a loop and the bounding box it was tested with stay together.
#   if (pointInsideLinkedGeoLoop(P->first, BOX, v)) { candidates[c] = P; candidateBBoxes[c] = BOX'; }     requires BOX' == BOX
#   pointInsideLinkedGeoLoop(polygons[X]->first, bboxes[Y], v)                                            requires X == Y
# (findDeepestContainer / countContainers re-test candidates against each other with the stored boxes; a box of another polygon
#  makes the containment count wrong and the hole is attached to the wrong polygon.)
def check_candbbox(ctx, m, cfg, rule="R-SIB"):
    n = 0
    for f in m.defined():
        for c in f.all_insts():
            if c.op != "call" or c.callee != "pointInsideLinkedGeoLoop" or len(c.ops) < 3:
                continue
            box = _strip(f, c.ops[1])
            lp = _strip(f, c.ops[0])
            # (b) arrays indexed in lockstep: loop = load(load(polygons[X])->first), box = load(bboxes[Y])
            def arr_index(o, depth=0):
                """(array base operand, index operand) when o is (a field of) an element loaded from base[idx]"""
                o = _strip(f, o)
                if o[0] != "i" or depth > 4:
                    return None
                i = f.insts[o[1]]
                if i.op == "load":
                    p = _strip(f, i.ops[0])
                    if p[0] == "i" and f.insts[p[1]].op == "getelementptr":
                        g = f.insts[p[1]]
                        if len(g.ops) == 2:
                            return (_strip(f, g.ops[0]), _strip(f, g.ops[1]))
                        return arr_index(g.ops[0], depth + 1)          # a struct field of a loaded element
                return None
            la, ba = arr_index(c.ops[0]), arr_index(c.ops[1])
            if la is not None and ba is not None and la[0] != ba[0]:
                n += 1
                inst = {"function": c.src_fn, "at": c.where(), "form": "parallel arrays", "config": cfg}
                if la[1] == ba[1]:
                    ctx.ok(rule, inst, "the loop and the bounding box passed to pointInsideLinkedGeoLoop come from the same position of their arrays")
                else:
                    ctx.violation(rule, "candbbox:%s:index" % c.src_fn, "%s tests a loop against the bounding box of a different array position (the arrays are filled in lockstep)" % c.src_fn, c.where(), inst)
            # (a) candidate collection guarded by the call
            t = c.block.term
            if t.op != "br" or len(t.ops) != 3 or t.ops[0] != ["i", c.id]:
                continue
            tb = f.blocks[t.succs()[0]]
            stores = [i for i in tb.insts if i.op == "store" and i.ops[1][0] == "i" and f.insts[i.ops[1][1]].op == "getelementptr" and len(f.insts[i.ops[1][1]].ops) == 2]
            byidx = {}
            for s_ in stores:
                g = f.insts[s_.ops[1][1]]
                byidx.setdefault(tuple(_strip(f, g.ops[1])), []).append(s_)
            for idx, ss in byidx.items():
                bs = [s_ for s_ in ss if "BBox" in (f.insts[s_.ops[0][1]].type if s_.ops[0][0] == "i" else (f.args[s_.ops[0][1]]["type"] if s_.ops[0][0] == "a" else ""))]
                ps = [s_ for s_ in ss if s_ not in bs]
                if len(bs) != 1 or len(ps) != 1:
                    continue
                n += 1
                inst = {"function": c.src_fn, "at": bs[0].where(), "form": "candidate collection", "config": cfg}
                if _strip(f, bs[0].ops[0]) == box:
                    ctx.ok(rule, inst, "the bounding box stored with a candidate is the one the candidate was tested with")
                else:
                    ctx.violation(rule, "candbbox:%s:stored" % c.src_fn, "%s stores, next to a candidate polygon, a bounding box other than the one its loop was just tested with; "
                                  "the later containment counts use a box of another polygon" % c.src_fn, bs[0].where(), inst)
    return n


# ---------------------------------------------------------------------------------------------------------------
# R-SIB passthrough: arrays and their length travel together.  A helper that forwards its candidate arrays to a sub-helper forwards
# its own element count with them (counting containers among the first i candidates only picks the wrong parent polygon).
PASSTHROUGH = [
    ("findDeepestContainer", "countContainers", {1: "polygons", 2: "bboxes", 3: "polygonCount"}, ["C16"]),
    # wrappers of the disk family hand the request (origin, k, output) to their worker unchanged; the initial distance of the safe walk is 0
    ("gridDisk", "gridDiskDistances", {0: "origin", 1: "k", 2: "out"}, ["C05"]),
    ("gridDiskUnsafe", "gridDiskDistancesUnsafe", {0: "origin", 1: "k", 2: "out"}, ["C05"]),
    ("gridDiskDistances", "gridDiskDistancesUnsafe", {0: "origin", 1: "k", 2: "out", 3: "distances"}, ["C05"]),
    ("gridDiskDistances", "_gridDiskDistancesInternal", {0: "origin", 1: "k", 2: "out", 5: 0}, ["C05"]),
    ("gridDiskDistancesSafe", "_gridDiskDistancesInternal", {0: "origin", 1: "k", 2: "out", 3: "distances", 5: 0}, ["C05"]),
    ("gridDiskDistances", "maxGridDiskSize", {0: "k"}, ["C05"]),
    ("gridDiskDistancesSafe", "maxGridDiskSize", {0: "k"}, ["C05"]),
]


def check_passthrough(ctx, m, cfg, rule="R-SIB", pid=None):
    n = 0
    for caller, callee, binding, props in PASSTHROUGH:
        if pid is not None and pid not in props:
            continue
        f = m.fn(caller)
        calls = [i for i in f.all_insts() if i.op == "call" and i.callee == callee]
        if not calls:
            raise AnalysisBroken("%s no longer calls %s" % (caller, callee))
        for c in calls:
            n += 1
            inst = {"caller": caller, "callee": callee, "at": c.where(), "config": cfg}
            bad = None
            for k, pname in binding.items():
                if isinstance(pname, int):
                    o = _strip(f, c.ops[k])
                    if not (o[0] == "c" and o[1] == pname):
                        bad = (k, "constant %d" % pname)
                        break
                    continue
                pk = f.arg_index(pname)
                if pk is None:
                    raise AnalysisBroken("%s: parameter %s not found" % (caller, pname))
                if _strip(f, c.ops[k]) != ["a", pk]:
                    bad = (k, pname)
                    break
            if bad:
                # definite only when the forwarded value provably differs from the parameter whenever the call executes: a dominating
                # `value < parameter` (e.g. the counter of the enclosing loop), or a value of another kind altogether (constant, other parameter).
                # Anything else (clamped, normalised, recomputed) may or may not preserve the request: not decidable here.
                definite = isinstance(binding[bad[0]], int)
                if not definite:
                    pk = f.arg_index(binding[bad[0]])
                    av = _strip(f, c.ops[bad[0]])
                    if av[0] in ("c", "a"):
                        definite = True
                    else:
                        for cmp_ in f.all_insts():
                            if cmp_.op != "icmp" or cmp_.pred not in ("slt", "ult", "sgt", "ugt"):
                                continue
                            a0, a1 = _strip(f, cmp_.ops[0]), _strip(f, cmp_.ops[1])
                            less = (a0 == av and a1 == ["a", pk] and cmp_.pred in ("slt", "ult")) or (a1 == av and a0 == ["a", pk] and cmp_.pred in ("sgt", "ugt"))
                            if not less:
                                continue
                            t_ = cmp_.block.term
                            if t_.op != "br" or len(t_.ops) != 3 or t_.ops[0] != ["i", cmp_.id]:
                                continue
                            tb_, fb_ = t_.succs()
                            # the call is only reachable through the true edge of this comparison
                            seen, todo = set(), [0]
                            while todo:
                                x = todo.pop()
                                if x in seen:
                                    continue
                                seen.add(x)
                                for s_ in f.blocks[x].succs():
                                    if x == cmp_.block.idx and s_ == tb_ and tb_ != fb_:
                                        continue
                                    todo.append(s_)
                            if c.block.idx not in seen:
                                definite = True
                                break
                if not definite:
                    ctx.broken(rule, "passthrough %s -> %s: argument %d is not the caller's own '%s' but something recomputed; whether the request is preserved cannot be decided" % (caller, callee, bad[0] + 1, bad[1]))
                    continue
                ctx.violation(rule, "passthrough:%s:%s:%s" % (caller, callee, bad[1]), "%s passes a value that is never its own '%s' as argument %d of %s: the request (arrays with their length; origin, k and "
                              "output of a disk) must reach the worker unchanged" % (caller, bad[1], bad[0] + 1, callee), c.where(), inst)
            else:
                ctx.ok(rule, inst, "the arrays and their element count are forwarded unchanged")
    return n


# ---------------------------------------------------------------------------------------------------------------
# R-SIB boundary slice: the hexagon and the pentagon boundary builders are siblings (same signature: fijk, res, start, length, out).
# A caller that chooses between them by isPentagon must ask both for the same slice: the same (start, length), or the whole ring
# (start 0, length NUM_HEX_VERTS = 6 resp. NUM_PENT_VERTS = 5).  A whole boundary is NOT indexed by topological vertex number (at
# Class III resolutions distortion vertices are inserted), so "whole ring here, slice there" delivers different vertices for the
# same vertex number (vertexToLatLng, directedEdgeToBoundary; C11, C10, C08).
BOUNDARY_SIBS = ("_faceIjkToCellBoundary", "_faceIjkPentToCellBoundary")
WHOLE = {"_faceIjkToCellBoundary": 6, "_faceIjkPentToCellBoundary": 5}


def check_boundary_slice(ctx, m, cfg, rule="R-SIB"):
    n = 0
    for f in m.defined():
        if f.name in BOUNDARY_SIBS:
            continue
        calls = {s: [c for c in f.all_insts() if c.op == "call" and c.callee == s] for s in BOUNDARY_SIBS}
        if not calls[BOUNDARY_SIBS[0]] and not calls[BOUNDARY_SIBS[1]]:
            continue
        n += 1
        inst = {"function": f.name, "config": cfg}
        if len(calls[BOUNDARY_SIBS[0]]) != 1 or len(calls[BOUNDARY_SIBS[1]]) != 1:
            ctx.broken(rule, "boundary slice: %s does not call each of the two boundary builders exactly once" % f.name)
            continue
        h, p = calls[BOUNDARY_SIBS[0]][0], calls[BOUNDARY_SIBS[1]][0]

        def slice_of(c):
            return _strip(f, c.ops[2]), _strip(f, c.ops[3])
        hs, ps = slice_of(h), slice_of(p)

        def whole(c, sl):
            return sl[0][0] == "c" and sl[0][1] == 0 and sl[1][0] == "c" and sl[1][1] == WHOLE[c.callee]
        same = _same_value(f, hs[0], ps[0]) and _same_value(f, hs[1], ps[1])
        if same or (whole(h, hs) and whole(p, ps)):
            ctx.ok(rule, inst, "both boundary builders are asked for the same slice (%s)" % ("the whole ring" if whole(h, hs) and not same else "start %s, length %s" % (_name_of(f, hs[0]), _name_of(f, hs[1]))))
        elif whole(h, hs) != whole(p, ps):
            w, o = (h, p) if whole(h, hs) else (p, h)
            ctx.violation(rule, "boundary-slice:%s" % f.name,
                          "%s asks %s for the whole ring but %s for the slice (start %s, length %s): entries of a whole boundary are not numbered by topological vertex "
                          "(distortion vertices at Class III resolutions), so the two kinds of cell answer differently for the same vertex number"
                          % (f.name, w.callee, o.callee, _name_of(f, slice_of(o)[0]), _name_of(f, slice_of(o)[1])), w.where(), inst)
        elif all(x[0] == "c" for x in hs + ps) or (_same_value(f, hs[0], ps[0]) and hs[1][0] == "c" and ps[1][0] == "c"):
            ctx.violation(rule, "boundary-slice:%s" % f.name, "%s asks the hexagon builder for (start %s, length %s) but the pentagon builder for (start %s, length %s)"
                          % (f.name, _name_of(f, hs[0]), _name_of(f, hs[1]), _name_of(f, ps[0]), _name_of(f, ps[1])), p.where(), inst)
        else:
            ctx.broken(rule, "boundary slice: %s passes slices to the two boundary builders that cannot be compared (%s,%s vs %s,%s)"
                       % (f.name, _name_of(f, hs[0]), _name_of(f, hs[1]), _name_of(f, ps[0]), _name_of(f, ps[1])))
    ctx.floor(rule, "callers choosing between the hexagon and the pentagon boundary builder", n, 3)
    return n


# ---------------------------------------------------------------------------------------------------------------
# R-SIB loop / box ownership: the loop tests take (loop, that loop's bounding box, ...) as adjacent arguments.  In a function that
# receives a polygon and its box array, the array belongs to the polygon's loops: the outer loop goes with bboxes[0], hole X with
# bboxes[X + 1] (checked above), and a loop that is NOT part of the polygon (the cell boundary turned into a loop) must not be tested
# with an element of that array - the transmeridian flag and the fast reject come from the box (seeded C07-6).
def check_loopbox(ctx, m, cfg, rule="R-SIB"):
    n = 0
    for f in m.defined():
        pk = [k for k, a in enumerate(f.args) if a["type"] == "%struct.GeoPolygon*"]
        bks = [k for k, a in enumerate(f.args) if a["type"] == "%struct.BBox*"]
        if len(pk) != 1 or not bks:
            continue

        def ty(o):
            return f.args[o[1]]["type"] if o[0] == "a" else (f.insts[o[1]].type if o[0] == "i" else "")

        def loop_kind(o):
            if _hole_index(m, f, o) is not None:
                return "hole"
            base, path = ir.field_path(m, f, o)
            if base == ("a", pk[0]) and len(path) == 1 and path[0][0] == "f" and path[0][2] == "geoloop":
                return "outer"
            return "other"

        def box_param(o):
            base, path = ir.field_path(m, f, o)
            return base[1] if base[0] == "a" and base[1] in bks else None
        pairs = []
        for c in f.all_insts():
            if c.op != "call" or not c.callee or c.callee.startswith("llvm."):
                continue
            for k in range(len(c.ops) - 1):
                if ty(c.ops[k]) == "%struct.GeoLoop*" and ty(c.ops[k + 1]) == "%struct.BBox*":
                    pairs.append((c, c.ops[k], c.ops[k + 1]))
        # the box array of the polygon: the BBox* parameter(s) that are paired with loops of the polygon
        owned = {box_param(b) for c, l, b in pairs if loop_kind(l) in ("hole", "outer") and box_param(b) is not None}
        for c, l, b in pairs:
            lk, bp = loop_kind(l), box_param(b)
            if lk == "hole":
                continue            # index agreement is the holebbox rule's business
            n += 1
            inst = {"function": f.name, "callee": c.callee, "at": c.where(), "loop": lk, "config": cfg}
            if lk == "outer":
                y = _bbox_index(m, f, b) if b[0] == "i" else (["c", 0, 64] if b[0] == "a" else None)
                if bp is None or bp not in owned or y is None or not (y[0] == "c" and y[1] == 0):
                    ctx.violation(rule, "loopbox:%s:%s" % (f.name, c.callee), "%s tests the polygon's outer loop with a bounding box that is not element 0 of the polygon's box array (%s)"
                                  % (f.name, c.callee), c.where(), inst)
                else:
                    ctx.ok(rule, inst, "the outer loop is tested with bboxes[0]")
            else:
                if bp is not None and bp in owned:
                    ctx.violation(rule, "loopbox:%s:%s" % (f.name, c.callee), "%s passes a loop that is not part of the polygon to %s together with an element of the polygon's bounding-box "
                                  "array '%s': the box (fast reject, transmeridian flag) belongs to another loop" % (f.name, c.callee, f.args[bp]["name"]), c.where(), inst)
                else:
                    ctx.ok(rule, inst, "a loop outside the polygon is tested with its own box, not with the polygon's box array")
    return n
