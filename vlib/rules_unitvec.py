"""R-UNITVEC: INVALID_DIGIT never reaches a table subscript (C09, C14: coordinates out of range are rejected, not turned into a cell).

`_unitIjkToDigit(v)` answers 0..6 when the normalised v is one of the seven UNIT_VECS and INVALID_DIGIT (7) otherwise.  Wherever its
result is used as a subscript of a table whose extent is 7 (directly, or as the argument of a callee that subscripts with it, e.g.
_getBaseCellNeighbor), one of two things must hold at the call:

  (a) the result is tested: with the result assumed to be 7, no subscript use is reachable (the `dir == INVALID_DIGIT` exit);
  (b) the argument is range-checked: on every path from the last write of v to the call, the conditions passed bound each of v's
      three components to 0..1 (v is IJK+ there: its last writer is one of the normalising kernels, which leave components >= 0 with
      minimum 0) - those are exactly the UNIT_VECS (checked against the table itself).

When neither holds, the rule looks for a witness: a small normalised triple that is not a unit vector and for which, with the three
component loads assumed to be exactly that triple, the call and then the subscript are reached.  A witness is a definite violation
(the triple is the coordinate of a cell two base cells away, which callers can produce); no witness and no proof is ANALYSIS-BROKEN.
Call sites whose result is only packed into an index (no subscript use) are outside this rule."""
from . import ir, explore, tables
from .explore import Explorer, const
from .build import AnalysisBroken

RULE = "R-UNITVEC"
SOURCE = "_unitIjkToDigit"
INVALID = 7
# kernels that leave their CoordIJK argument normalised (confirmed structurally below: the success path ends in _ijkNormalize(arg))
NORMALISERS = ("_ijkNormalize", "_upAp7Checked", "_upAp7rChecked", "_upAp7", "_upAp7r", "_downAp7", "_downAp7r", "_downAp3", "_downAp3r", "_neighbor",
               "_ijkRotate60ccw", "_ijkRotate60cw")


def _strip(f, o):
    while o[0] == "i" and f.insts[o[1]].op in ("sext", "zext", "trunc", "freeze"):
        o = f.insts[o[1]].ops[0]
    return o


def _subscript_params(m):
    """callee -> {param index: (table, extent)} for parameters used (through casts only) as a subscript of a constant table"""
    out = {}
    for f in m.defined():
        for i in f.all_insts():
            if i.op != "getelementptr" or i.ops[0][0] != "g":
                continue
            ty = i.d.get("srcty", "")
            k = 2
            while True:
                a = ir.array_extent(ty)
                if not a or k >= len(i.ops):
                    break
                o = _strip(f, i.ops[k])
                if o[0] == "a":
                    out.setdefault(f.name, {})[o[1]] = (i.ops[0][1], a[0])
                ty = a[1]
                k += 1
    return out


def _forward(f, iid):
    """values that are copies of instruction iid (casts, phis, selects)"""
    seen, todo = set(), [iid]
    while todo:
        x = todo.pop()
        if x in seen:
            continue
        seen.add(x)
        for u in f.users(("i", x)):
            if u.op in ("sext", "zext", "trunc", "freeze", "phi") or (u.op == "select" and ("i", x) != tuple(u.ops[0][:2])):
                todo.append(u.id)
    return seen


def _sinks(m, f, c, subs):
    """[(inst, operand, table, extent)] subscript uses of the result of call c (extent <= INVALID)"""
    copies = _forward(f, c.id)
    out = []
    for i in f.all_insts():
        if i.op == "getelementptr" and i.ops[0][0] == "g":
            ty = i.d.get("srcty", "")
            k = 2
            while True:
                a = ir.array_extent(ty)
                if not a or k >= len(i.ops):
                    break
                o = i.ops[k]
                if o[0] == "i" and o[1] in copies and a[0] <= INVALID:
                    out.append((i, o, i.ops[0][1], a[0]))
                ty = a[1]
                k += 1
        elif i.op == "call" and i.callee in subs:
            for k, (tab, ext) in subs[i.callee].items():
                if k < len(i.ops) and i.ops[k][0] == "i" and i.ops[k][1] in copies and ext <= INVALID:
                    out.append((i, i.ops[k], "%s (in %s)" % (tab, i.callee), ext))
    return out


class _Reach:
    """records whether given instructions are executed, and with which values of watched operands"""
    def __init__(self, targets, watch=()):
        self.targets = targets          # inst id -> operand to evaluate (or None)
        self.watch = list(watch)
        self.hits = []                  # (inst id, AV of operand, [AV of watched], state)

    def on_inst(self, ex, s, i):
        if i.id in self.targets:
            o = self.targets[i.id]
            self.hits.append((i.id, ex.eval(o, s.env) if o is not None else None, [ex.eval(("i", w), s.env) for w in self.watch], s))
        return None


def _writers(m, f, A):
    """instructions that may write the CoordIJK object A (an alloca id or ('a', k))"""
    out = []
    for i in f.all_insts():
        if i.op == "store" and ir.field_path(m, f, i.ops[1])[0] == A:
            out.append(i)
        elif i.op == "call" and not (i.callee or "").startswith("llvm.dbg") and not (i.callee or "").startswith("llvm.lifetime"):
            for k, o in enumerate(i.ops):
                if o[0] in ("i", "a") and ir.field_path(m, f, o)[0] == A:
                    cal = m.functions.get(i.callee)
                    ro = cal is not None and k < len(cal.args) and "readonly" in (cal.args[k].get("attrs") or [])
                    if (i.callee or "").startswith("llvm.memcpy") and k == 1:
                        ro = True
                    if not ro and i.callee != SOURCE:
                        out.append(i)
    return out


def _normaliser_ok(m, name):
    """the callee ends its successful path with _ijkNormalize(first parameter) (or is _ijkNormalize)"""
    if name == "_ijkNormalize":
        return True
    f = m.functions.get(name)
    if f is None or f.decl:
        return False
    for i in f.all_insts():
        if i.op == "call" and i.callee == "_ijkNormalize" and i.ops and i.ops[0] == ["a", 0]:
            later = [x for x in i.block.insts if x.id > i.id and (x.op == "store" or (x.op == "call" and not (x.callee or "").startswith("llvm.")))]
            if not later:
                return True
    return False


def check(ctx, m, cfg, only=None):
    """m: the non-inlined (ssa) module"""
    subs = _subscript_params(m)
    n = 0
    for f in m.defined():
        if only is not None and f.name not in only:
            continue
        for c in [i for i in f.all_insts() if i.op == "call" and i.callee == SOURCE]:
            try:
                n += _site(ctx, m, f, c, subs, cfg)
            except AnalysisBroken as e:
                ctx.broken(RULE, "%s at %s: %s" % (f.name, c.where(), e))
    return n


def _unit_vecs(m):
    rows = tables.Tables(m).get("UNIT_VECS")
    if len(rows) != 7 or any(len(r) != 3 for r in rows):
        raise AnalysisBroken("UNIT_VECS does not hold 7 triples")
    return {tuple(r) for r in rows}


def _site(ctx, m, f, c, subs, cfg):
    sinks = _sinks(m, f, c, subs)
    inst = {"function": f.name, "call": c.where(), "config": cfg, "subscript_uses": len(sinks)}
    if not sinks:
        return 0
    # (a) result tested against INVALID_DIGIT before any subscript use
    targets = {s_[0].id: s_[1] for s_ in sinks}
    pl = _Reach(targets)
    ex = Explorer(f, assume_def={c.id: const(INVALID, 32)}, plugin=pl, start_block=c.block.idx)
    ex.seed_dominating = True
    ex.run()
    bad = [h for h in pl.hits if h[1] is not None and h[1][0] == "int" and not explore.is_empty(explore.inter(h[1], const(INVALID, h[1][1])))]
    if not bad:
        ctx.ok(RULE, inst, "with the result assumed INVALID_DIGIT no subscript use is reachable: the result is tested before it subscripts %s"
               % ", ".join(sorted({s_[2] for s_ in sinks})))
        return 1
    sink = f.insts[bad[0][0]]
    # (b) the argument is range-checked
    A, path = ir.field_path(m, f, c.ops[0])
    if path or A[0] not in ("i", "a") or (A[0] == "i" and f.insts[A[1]].op != "alloca"):
        raise AnalysisBroken("the argument is not a local CoordIJK or a parameter")
    writers = _writers(m, f, A)
    info = explore.fninfo(f)
    # component loads that dominate the call and are not followed by a writer on the way to it
    loads = {}
    for i in f.all_insts():
        if i.op != "load":
            continue
        b_, p_ = ir.field_path(m, f, i.ops[0])
        if b_ != A or len(p_) != 1 or p_[0][0] != "f":
            continue
        if not _dominates(f, info, i.block.idx, c.block.idx) or (i.block.idx == c.block.idx and i.id > c.id):
            continue
        if any(_between(f, i, w, c) for w in writers):
            continue
        loads.setdefault(p_[0][2], []).append(i)
    # helpers that receive the object read-only before the call (a range test moved into a function): their answer depends on the components
    helpers = []
    for h in f.all_insts():
        if h.op == "call" and h.id != c.id and h.callee in m.functions and not m.functions[h.callee].decl and h.callee != SOURCE and h not in writers \
                and any(o[0] in ("i", "a") and ir.field_path(m, f, o) == (A, ()) for o in h.ops) and _dominates(f, info, h.block.idx, c.block.idx) \
                and not any(_between(f, h, w, c) for w in writers):
            helpers.append(h)
    missing = {"i", "j", "k"} - set(loads)          # components that no test reads: unconstrained at the call
    every = [l for ls in loads.values() for l in ls]
    first = min(every + helpers, key=lambda l: l.id) if every or helpers else c
    lids = [l.id for comp in ("i", "j", "k") for l in loads.get(comp, [])]
    comp_of = {l.id: comp for comp in ("i", "j", "k") for l in loads.get(comp, [])}
    # normalised on entry to the tests: every writer that can be the last one is a normalising kernel (or the initial copy of a parameter: IJK+ by contract)
    notnorm = []
    for w in writers:
        if w.op == "call" and w.callee in NORMALISERS and _normaliser_ok(m, w.callee):
            continue
        if w.op == "call" and (w.callee or "").startswith("llvm.memcpy"):
            continue
        if _can_be_last(f, w, writers, first):
            notnorm.append(w)
    nonneg = explore.mk(32, [(0, (1 << 31) - 1)])
    pl = _Reach({c.id: None}, watch=lids)
    ex = Explorer(f, assume_def={l: nonneg for l in lids}, plugin=pl, start_block=first.block.idx)
    ex.seed_dominating = True
    ex.run()
    if not pl.hits:
        raise AnalysisBroken("the call is not reached from the component tests (engine lost the path)")
    loose = set(missing)
    covered = set()
    for h in helpers:
        covered |= _helper_bounds(m, f, h, A, c)
    loose -= covered
    for _id, _av, watched, s in pl.hits:
        for lid, av in zip(lids, watched):
            if av is None or av[0] != "int" or explore.to_signed_ivs(av)[-1][1] > 1 or explore.to_signed_ivs(av)[0][0] < 0:
                loose.add(comp_of[lid])
    unit = _unit_vecs(m)
    want = {(i, j, k) for i in (0, 1) for j in (0, 1) for k in (0, 1)} - {(1, 1, 1)}
    if not loose:
        if notnorm:
            raise AnalysisBroken("the argument's last writer at %s is not a normalising kernel: its components are not known to be >= 0" % notnorm[0].where())
        if unit != want:
            ctx.violation(RULE, "unitvecs", "UNIT_VECS is not the set of 0/1 triples other than (1,1,1): a range-checked triple can miss the table", f.where(), inst)
            return 1
        ctx.ok(RULE, inst, "every path to the call bounds i, j and k of the (normalised) argument to 0..1: the argument is one of the seven UNIT_VECS, "
               "the result is 0..6 at the subscript of %s" % ", ".join(sorted({s_[2] for s_ in sinks})))
        return 1
    # witness: a small normalised triple that is not a unit vector, passes the tests and reaches the subscript
    cands = sorted(((i, j, k) for i in range(4) for j in range(4) for k in range(4) if min(i, j, k) == 0 and (i, j, k) not in unit), key=lambda t: (sum(t), t))
    for t in cands:
        adef = {}
        for comp, v in zip(("i", "j", "k"), t):
            for l in loads.get(comp, []):
                adef[l.id] = const(v, 32)
        adef[c.id] = const(INVALID, 32)
        for h in helpers:
            adef[h.id] = const(_eval_helper(m, f, h, A, t), int(h.type[1:]) if h.type[1:].isdigit() else 32)
        pl = _Reach(dict(targets))
        ex = Explorer(f, assume_def=adef, plugin=pl, start_block=first.block.idx)
        ex.seed_dominating = True
        ex.run()
        hit = [h for h in pl.hits if h[1] is not None and h[1][0] == "int" and explore.singleton(h[1]) == INVALID]
        if hit:
            s_ = f.insts[hit[0][0]]
            tab = [x[2] for x in sinks if x[0].id == s_.id][0]
            ctx.violation(RULE, "unitvec:%s" % f.name,
                          "%s: the tests before %s let (i,j,k) = %s through, which is not a unit vector: %s answers INVALID_DIGIT (7) and that value subscripts %s (extent %d) at %s; "
                          "coordinates that far from the origin must be rejected" % (f.name, SOURCE, t, SOURCE, tab, [x[3] for x in sinks if x[0].id == s_.id][0], s_.where()),
                          c.where(), inst)
            return 1
    raise AnalysisBroken("INVALID_DIGIT can reach the subscript at %s: component(s) %s of the argument are not bounded to 0..1 before the call, and no small witness passes the tests"
                         % (sink.where(), ",".join(sorted(loose))))


def _dominates(f, info, a, b):
    """block a dominates block b (simple iterative: b unreachable from entry when a is removed)"""
    if a == b:
        return True
    seen, todo = set(), [0]
    if a == 0:
        return True
    while todo:
        x = todo.pop()
        if x == b:
            return False
        if x in seen or x == a:
            continue
        seen.add(x)
        todo += f.blocks[x].succs()
    return True


def _reach_blocks(f, a, avoid=None):
    seen, todo = set(), list(f.blocks[a].succs())
    while todo:
        x = todo.pop()
        if x in seen or x == avoid:
            continue
        seen.add(x)
        todo += f.blocks[x].succs()
    return seen


def _between(f, load, w, c):
    """writer w can execute after `load` and before call c"""
    if w.block.idx == load.block.idx and w.id > load.id and (c.block.idx != load.block.idx or w.id < c.id):
        return True
    if w.block.idx == c.block.idx and w.id < c.id and load.block.idx != c.block.idx:
        return True
    if w.block.idx in (load.block.idx, c.block.idx):
        return False
    after_load = _reach_blocks(f, load.block.idx, avoid=c.block.idx)
    if w.block.idx not in after_load:
        return False
    return c.block.idx in _reach_blocks(f, w.block.idx) or c.block.idx == w.block.idx


def _can_be_last(f, w, writers, first):
    """a path from w to the first test that passes no other writer"""
    others = {x.block.idx for x in writers if x.id != w.id}
    same = [x for x in writers if x.id != w.id and x.block.idx == w.block.idx and x.id > w.id]
    if same:
        return False
    if w.block.idx == first.block.idx:
        return w.id < first.id
    seen, todo = set(), list(f.blocks[w.block.idx].succs())
    while todo:
        x = todo.pop()
        if x == first.block.idx:
            return True
        if x in seen or x in others:
            continue
        seen.add(x)
        todo += f.blocks[x].succs()
    return False


def _eval_helper(m, f, h, A, triple):
    """value a read-only helper returns for the object holding the triple (exact evaluation of its expression tree)"""
    from . import ceval
    g = m.functions[h.callee]
    args = []
    for k, o in enumerate(h.ops[:len(g.args)]):
        if o[0] in ("i", "a") and ir.field_path(m, f, o) == (A, ()):
            args.append(("obj", k))
        elif o[0] == "c":
            args.append(o[1])
        else:
            raise AnalysisBroken("%s is called with an argument that is not the object or a constant" % h.callee)
    comp = dict(zip(("i", "j", "k"), triple))

    def load(key):
        base, path = key
        if len(path) == 1 and path[0][0] == "f" and path[0][2] in comp:
            return comp[path[0][2]] & 0xffffffff
        raise AnalysisBroken("%s reads %s of its argument" % (h.callee, path))
    models = {("load", ("a", k)): load for k, a_ in enumerate(args) if isinstance(a_, tuple)}
    ev = ceval.Eval(m, g, [0 if isinstance(a_, tuple) else a_ for a_ in args], models)
    return ev.run()


def _helper_bounds(m, f, h, A, c):
    """components that a read-only helper bounds to 0..1 whenever it returns a value with which the caller goes on to call c"""
    g = m.functions[h.callee]
    ks = [k for k, o in enumerate(h.ops[:len(g.args)]) if o[0] in ("i", "a") and ir.field_path(m, f, o) == (A, ())]
    if len(ks) != 1 or not h.type[1:].isdigit():
        return set()
    k = ks[0]
    w = int(h.type[1:])
    # which results let the caller reach c
    passing = []
    for v in (0, 1):
        pl = _Reach({c.id: None})
        ex = Explorer(f, assume_def={h.id: const(v, w)}, plugin=pl, start_block=h.block.idx)
        ex.seed_dominating = True
        ex.run()
        if pl.hits:
            passing.append(v)
    if len(passing) != 1:
        return set()
    loads = {}
    for i in g.all_insts():
        if i.op == "load":
            b_, p_ = ir.field_path(m, g, i.ops[0])
            if b_ == ("a", k) and len(p_) == 1 and p_[0][0] == "f":
                loads.setdefault(p_[0][2], []).append(i.id)
    if any(x.op == "store" or (x.op == "call" and not (x.callee or "").startswith("llvm.")) for x in g.all_insts()):
        return set()
    nonneg = explore.mk(32, [(0, (1 << 31) - 1)])
    ex = Explorer(g, assume_def={l: nonneg for ls in loads.values() for l in ls})
    ex.run()
    good = set(loads)
    seen = False
    for s_, t_, av in ex.rets:
        if av is None or av[0] != "int" or explore.is_empty(explore.inter(av, const(passing[0], av[1]))):
            continue
        # the environment(s) in which the returned value is the passing one
        if g.d.get("ret") == "i1" and t_.ops and t_.ops[0][0] == "i":
            envs = ex.refine(t_.ops[0], bool(passing[0]), dict(s_.env))
        else:
            envs = [dict(s_.env)]
            if t_.ops and t_.ops[0][0] in ("i", "a"):
                ex._set_int(t_.ops[0], const(passing[0], av[1]), envs[0])
        for env in envs:
            seen = True
            for comp, ls in loads.items():
                for l in ls:
                    v = ex.eval(("i", l), env)
                    if v is None or v[0] != "int" or explore.to_signed_ivs(v)[-1][1] > 1 or explore.to_signed_ivs(v)[0][0] < 0:
                        good.discard(comp)
    return good if seen else set()
