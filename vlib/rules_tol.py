"""R-TOL: a tolerance used to decide that two vertex coordinates are "the same point" is far below the distance between distinct vertices of the
finest cells (C16: the outline is assembled by matching edge end points; C08/C10 use the same predicate).

Every call of geoAlmostEqualThreshold reachable from the property's entry points must pass a constant threshold t (radians, applied to latitude and
longitude separately).  The scale is taken from the library itself: e = getHexagonEdgeLengthAvgKm[15] / EARTH_RADIUS_KM (the radius is read from the
multiplication in greatCircleDistanceKm), the average edge of a res-15 cell in radians.
    t <= e / 4     holds: two distinct vertices are never identified (the shortest res-15 edge is longer than e / 2)
    t >= e         VIOLATION: adjacent vertices of a res-15 cell (edges no longer than the average exist) are identified, loops collapse
    otherwise      ANALYSIS-BROKEN (depends on the true minimum edge, which is not derived here)
A non-constant threshold is ANALYSIS-BROKEN."""
from . import tables
from .build import AnalysisBroken

RULE = "R-TOL"
PRED = "geoAlmostEqualThreshold"


def _fconst(o):
    if o[0] == "f":
        try:
            return float(o[1])
        except (TypeError, ValueError):
            return None
    return None


def _earth_radius_km(m):
    f = m.fn("greatCircleDistanceKm")
    cs = [_fconst(o) for i in f.all_insts() if i.op == "fmul" for o in i.ops if _fconst(o) is not None]
    cs = [c for c in cs if 6000.0 < c < 6500.0]
    if len(cs) != 1:
        raise AnalysisBroken("the Earth radius is not the single constant factor of greatCircleDistanceKm")
    return cs[0]


def check(ctx, m, cfg, functions=None):
    T = tables.Tables(m)
    lens = T.get("lens", "getHexagonEdgeLengthAvgKm")
    if len(lens) != 16:
        raise AnalysisBroken("getHexagonEdgeLengthAvgKm.lens does not have 16 entries")
    e = lens[15] / _earth_radius_km(m)
    n = 0
    for f in m.defined():
        if functions is not None and f.name not in functions:
            continue
        for c in f.all_insts():
            if c.op != "call" or c.callee != PRED:
                continue
            n += 1
            inst = {"function": f.name, "at": c.where(), "res15_edge_rad": e, "config": cfg}
            t = _fconst(c.ops[2]) if len(c.ops) > 2 else None
            if t is None and c.ops[2][0] == "i" and f.insts[c.ops[2][1]].op == "load" and f.insts[c.ops[2][1]].ops[0][0] == "g":
                # a named constant (`static const double TOL = ...`)
                g = f.insts[c.ops[2][1]].ops[0][1]
                if m.globals.get(g, {}).get("const"):
                    try:
                        v = T.get(g)
                        t = float(v) if isinstance(v, (int, float)) else None
                    except AnalysisBroken:
                        t = None
            if t is None and c.ops[2][0] == "a":
                # a wrapper that forwards its own parameter: judged at its callers
                k = c.ops[2][1]
                callers = [(g, x) for g in m.defined() for x in g.all_insts() if x.op == "call" and x.callee == f.name]
                ts = [_fconst(x.ops[k]) for g, x in callers if k < len(x.ops)]
                if ts and all(v is not None for v in ts):
                    t = max(ts)
            if t is None:
                ctx.broken(RULE, "%s: the threshold passed to %s at %s is not a constant" % (f.name, PRED, c.where()))
                continue
            inst["threshold_rad"] = t
            if t <= e / 4:
                ctx.ok(RULE, inst, "threshold %.3g rad is below a quarter of the average res-15 edge (%.3g rad): distinct vertices are never identified" % (t, e))
            elif t >= e:
                ctx.violation(RULE, "tol:%s" % f.name, "%s compares vertex coordinates with tolerance %.3g rad, which is not below the average edge of a res-15 cell (%.3g rad = "
                              "getHexagonEdgeLengthAvgKm[15] / Earth radius): adjacent vertices of fine cells are taken for the same point" % (f.name, t, e), c.where(), inst)
            else:
                ctx.broken(RULE, "%s: tolerance %.3g rad at %s is between a quarter of and the whole average res-15 edge (%.3g rad): not decided" % (f.name, t, c.where(), e))
    return n
