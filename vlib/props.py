"""Property -> rule instances (DESIGN.md section 3)."""
import json, os, sys, traceback
from . import build, ir, core
from .build import AnalysisBroken

_mods = {}


def module(cfg, kind, funcs=None):
    key = (cfg, kind, tuple(funcs) if funcs else None)
    if key not in _mods:
        b = build.build(cfg, (kind,))
        _mods[key] = ir.load(b[kind], funcs)
    return _mods[key]


def configs(tier):
    return ["release", "assert", "prefix"] if tier == "thorough" else ["release"]


def C18(ctx):
    from . import rules_glob
    ctx.level = "proof"
    ctx.explanation = ("R-GLOB: for every global variable of the linked library module (incl. function-local statics) every "
                       "transitive use of its address is followed through gep/bitcast/phi/select, through internal callees and "
                       "through pointer tables; each terminal use must be a plain load, a compare, a memcpy source or a "
                       "readonly+nocapture argument. Every external callee is classified re-entrant / stateful (rules/libc.json). "
                       "A store, memset/memcpy destination, atomic RMW or a stateful libc call is a violation naming the variable and the instruction.")
    for cfg in configs(ctx.tier):
        m = module(cfg, "ssa")
        n = rules_glob.check(ctx, m, cfg)
        ctx.floor("R-GLOB", "globals scanned (%s)" % cfg, len([g for g in m.globals.values() if not g["decl"]]), 60)
        ctx.floor("R-GLOB", "functions scanned (%s)" % cfg, len(m.defined()), 200)
        ctx.note("functions_analysed_" + cfg, len(m.defined()))
    ctx.assumptions += ["libc/libm functions classified re-entrant in rules/libc.json are thread-safe as POSIX specifies (sprintf/sscanf read the locale; h3 never sets it)",
                        "the caller's allocator (H3_ALLOC_PREFIX) is thread-safe",
                        "callers do not write through pointers the library hands out to its constant tables (describeH3Error)"]


PROPS = {"C18": C18}


def main(argv):
    if not argv:
        print("usage: check <property> [--tier quick|thorough] [--replay file]"); return 2
    pid = argv[0]
    tier = os.environ.get("VERIF_TIER", "quick")
    replay = None
    k = 1
    while k < len(argv):
        if argv[k] == "--tier": tier = argv[k + 1]; k += 2
        elif argv[k] == "--replay": replay = argv[k + 1]; k += 2
        else: k += 1
    if tier not in ("quick", "thorough"):
        tier = "quick"
    seed = int(os.environ.get("VERIF_SEED", "0") or 0)
    ctx = core.Ctx(pid, tier, seed)
    if pid not in PROPS:
        print("no check for", pid); return 2
    if replay:
        r = json.load(open(replay))
        ctx.replay_only = r["key"]
        print("replaying %s on the current tree: %s" % (r["key"], r["message"]))
    try:
        PROPS[pid](ctx)
    except AnalysisBroken as e:
        ctx.broken("build/anchor", str(e))
    except Exception as e:
        traceback.print_exc()
        ctx.broken("internal", "checker crashed: %r" % (e,))
    if replay:
        hits = [v for v in ctx.violations if v["key"] == ctx.replay_only]
        ctx.violations = hits
        if not hits:
            print("instance %s no longer violates on the current tree" % ctx.replay_only)
    return ctx.finish()
