"""Property -> rule instances (DESIGN.md section 3)."""
import json, os, sys, traceback
from . import build, ir, core
from .build import AnalysisBroken

_mods = {}
CFG = ["release"]     # configuration the composite parts analyse (the thorough tier repeats them for the assert build)


def module(cfg, kind, funcs=None):
    key = (cfg, kind, tuple(funcs) if funcs else None)
    if key not in _mods:
        b = build.build(cfg, (kind,))
        _mods[key] = ir.load(b[kind], funcs)
    return _mods[key]


def configs(tier):
    return ["release", "assert", "prefix"] if tier == "thorough" else ["release"]


def C18(ctx):
    from . import rules_glob
    ctx.level = "proof"
    ctx.explanation = ("R-GLOB: for every global variable of the linked library module (incl. function-local statics) every "
                       "transitive use of its address is followed through gep/bitcast/phi/select, through internal callees and "
                       "through pointer tables; each terminal use must be a plain load, a compare, a memcpy source or a "
                       "readonly+nocapture argument. Every external callee is classified re-entrant / stateful (rules/libc.json). "
                       "A store, memset/memcpy destination, atomic RMW or a stateful libc call is a violation naming the variable and the instruction.")
    for cfg in configs(ctx.tier):
        m = module(cfg, "ssa")
        n = rules_glob.check(ctx, m, cfg)
        ctx.floor("R-GLOB", "globals scanned (%s)" % cfg, len([g for g in m.globals.values() if not g["decl"]]), 60)
        ctx.floor("R-GLOB", "functions scanned (%s)" % cfg, len(m.defined()), 200)
        ctx.note("functions_analysed_" + cfg, len(m.defined()))
    ctx.assumptions += ["libc/libm functions classified re-entrant in rules/libc.json are thread-safe as POSIX specifies (sprintf/sscanf read the locale; h3 never sets it)",
                        "the caller's allocator (H3_ALLOC_PREFIX) is thread-safe",
                        "callers do not write through pointers the library hands out to its constant tables (describeH3Error)"]


def guard_rows(ctx, props_sel, cfg="release"):
    """run the R-GUARD rows attributed to the given properties (None = all rows)"""
    from . import rules_guard
    rows = [r for r in rules_guard.load_rows() if props_sel is None or set(r["props"]) & set(props_sel)]
    inl_fns = sorted({r["fn"] for r in rows if r.get("mod", "inl") == "inl"})
    cache = {}

    def gm(kind, fn):
        if kind not in cache:
            cache[kind] = module(cfg, kind, inl_fns if kind == "inl" else None)
        return cache[kind]
    n = 0
    for row in rows:
        n += 1
        try:
            rules_guard._check_row(ctx, gm, row, "R-GUARD", cfg)
        except AnalysisBroken as e:
            ctx.broken("R-GUARD", "row %s: %s" % (row["id"], e))
    return n


C17_ENTRY = ["compactCells", "gridDisk", "gridDiskDistances", "areNeighborCells", "polygonToCells",
             "polygonToCellsExperimental", "maxPolygonToCellsSizeExperimental"]


def C17(ctx):
    from . import rules_alloc, rules_own
    ctx.explanation = ("R-ALLOC: path-sensitive allocation typestate (unchecked/null/live/freed/escaped per allocation site, pointer phis as "
                       "parallel copies) over every function that allocates: no exit with a live block, no double free, no use after free, "
                       "NULL tested before use, and a NULL result makes the function return E_MEMORY_ALLOC - for every path, i.e. for every "
                       "failure index of every input at once. R-ERRPROP: every call whose callee may return E_MEMORY_ALLOC (least fixpoint over "
                       "returns, parameters and iterator error fields) is explored with the result assumed 13: every reachable return yields 13 "
                       "or records it in an iterator. R-OWN E1-E6: protocol of the iterator-owned bounding boxes. Allocator indirection: in the "
                       "H3_ALLOC_PREFIX configuration no unprefixed malloc/calloc/realloc/free call remains.")
    cfgs = ["release", "prefix"] + (["assert"] if ctx.tier == "thorough" else [])
    for cfg in cfgs:
        m = module(cfg, "ssa")
        for e in C17_ENTRY:
            m.fn(e)
        cg = rules_alloc.call_graph(m)
        strict = rules_alloc.reachable(cg, C17_ENTRY)
        nsites, nfun = rules_alloc.check_alloc(ctx, m, cfg, strict)
        ctx.floor("R-ALLOC", "allocation sites (%s)" % cfg, nsites, 12)
        ncalls, MA = rules_alloc.check_errprop(ctx, m, cfg)
        ctx.floor("R-ERRPROP", "call sites of functions that may return E_MEMORY_ALLOC (%s)" % cfg, ncalls, 3)
        missing = [e for e in C17_ENTRY if e not in MA]
        if missing:
            ctx.violation("R-ERRPROP", "never-reports:%s" % ",".join(missing),
                          "%s allocate(s) (transitively) but no return can yield E_MEMORY_ALLOC" % ", ".join(missing), m.fn(missing[0]).where(), {"config": cfg})
        else:
            ctx.ok("R-ERRPROP", {"entry_points_can_report_E_MEMORY_ALLOC": C17_ENTRY, "config": cfg}, "each is in the may-return-13 fixpoint")
        rules_own.check_owner(ctx, m, cfg)
        ctx.note("functions_analysed_" + cfg, len(m.defined()))
        if cfg == "prefix":
            raw = [i for f in m.defined() for i in f.all_insts() if i.op == "call" and i.callee in ("malloc", "calloc", "realloc", "free")]
            pre = [i for f in m.defined() for i in f.all_insts() if i.op == "call" and i.callee in ("vp_malloc", "vp_calloc", "vp_realloc", "vp_free")]
            for i in raw:
                ctx.violation("R-ALLOCPREFIX", "raw:%s:%s" % (i.src_fn, i.callee),
                              "%s calls %s directly; with H3_ALLOC_PREFIX set the user's allocator is bypassed" % (i.src_fn, i.callee), i.where(), {})
            ctx.floor("R-ALLOCPREFIX", "prefixed allocator calls", len(pre), 60)
            if not raw:
                ctx.ok("R-ALLOCPREFIX", {"prefixed_calls": len(pre), "unprefixed": 0}, "all allocator references go through H3_MEMORY()")
    ctx.assumptions += ["the user's allocator behaves like malloc/calloc/free ('results identical with the default allocator' is not decided)",
                        "iterStepPolygon's 'outer cell == 0 implies inner iterator exhausted' is taken from its shape; that _iterInitParent never yields 0 for a non-null cell of resolution <= target is a value fact not proven",
                        "linkedGeo.c / vertexGraph.c assert() on allocation failure: outside the C17 function list, only leak/double-free typestate applies there"]


GUARD_TXT = ("R-GUARD/R-CONJ: each frozen row of rules/guards.json names a function, a term (parameter, bit field of an index by "
             "offset/width, non-finite double field, result of a callee, pair of values) and the documented domain; the function's IR "
             "(all helpers inlined, or modular with the callee's result as the term) is explored by a path-sensitive range propagation "
             "under the assumption that the term lies OUTSIDE the domain: no reachable return may yield success (G1), the documented code "
             "must be reachable (G2), nothing may be stored through the output parameter (G3), and boundary values inside the domain must "
             "still be able to succeed (G4). Validator conjuncts are explored with one conjunct assumed false: every return must be 0.")


def part_guards(pid):
    def run(ctx):
        n = guard_rows(ctx, None if pid == "C12" else [pid], CFG[0])
        ctx.explanation += GUARD_TXT + " "
        ctx.note("guard_rows", n)
        return n
    return run


TAB_TXT = ("R-TAB: relations between the constant tables (read from the IR initialisers) and the small lattice kernels: %s. Every relation "
           "is a consequence of the geometry (inverse maps, symmetry, derivability), asserted over live entries only; no table is compared with a copy of itself.")
TAB_DESC = {
    "T1": "T1 digit transition tables = unique aperture-7 decomposition under _downAp7/_downAp7r",
    "T2": "T2 hexagon rows of baseCellNeighbors/60CCWRots = faceIjkBaseCells[home + unit vector]",
    "T3": "T3 base-cell adjacency symmetric, rotations cancel / follow the pentagon wedge rule, return direction determined",
    "T4": "T4 every home address looks itself up, cross-face entries agree with their image on the adjacent face",
    "T5": "T5 faceNeighbors/adjacentFaceDir mutual inverse affine maps",
    "T6": "T6 faceCenterPoint = unit vector of faceCenterGeo",
    "T7": "T7 one pentagon set and one base-cell count in every table, counter and enumerator bound",
    "T8": "T8 direction<->vertex-number maps inverse, DIRECTIONS = ccw cycle, reverse directions opposite",
    "T9": "T9 maxDim/unitScale = 2*7^(r/2), 7^(r/2)",
    "T10": "T10 digit rotation = coordinate rotation, inverse 6-cycles",
    "T11": "T11 sibling shortcut of areNeighborCells = carry-free neighbours of the digit tables",
    "T12": "T12 pentagonDirectionFaces / cwOffsetPent agree with the base-cell tables",
    "T13": "T13 substrate vertex tables: pentagon = first five of hexagon, closed ccw rings",
    "T14": "T14 PENTAGON_ROTATIONS_REVERSE undoes PENTAGON_ROTATIONS",
    "T16": "T16 paired scalar constants mutually consistent",
    "T17": "T17 MAX_EDGE_LENGTH_RADS[r] >= average edge length, decreasing",
    "T18": "T18 pole-cell tables hold valid cells of the right resolution",
    "T22": "T22 ijkToIj/ijToIjk and ijkToCube/cubeToIjk are mutually inverse linear maps modulo (1,1,1)",
    "T21": "T21 _upAp7/_upAp7r (and checked variants) are the inverse linear maps of _downAp7/_downAp7r (7*identity in IJ coordinates, scale 1/7)",
    "T20": "T20 PENTAGON_ROTATIONS_REVERSE_NONPOLAR/_POLAR undo the forward unfolding of an index on a pentagon base cell (image of the forward map)",
    "T19": "T19 cwOffsetPent = the faces on which the pentagon's wedge has the deleted K wedge as clockwise neighbour (from faceIjkBaseCells)",
}


# ---------------------------------------------------------------- wiring by reachability
# entry points of each property (its statement's API functions); every rule instance about a function / table that the call graph
# reaches from them is run for the property, in addition to the instances attributed by hand
PROP_ENTRIES = {
    "C01": ["isValidCell", "getResolution", "getBaseCellNumber", "isResClassIII"],
    "C02": ["latLngToCell"],
    "C03": ["cellToLatLng", "latLngToCell", "getNumCells", "getPentagons", "getRes0Cells", "res0CellCount", "pentagonCount", "isValidCell", "isPentagon"],
    "C04": ["cellToChildren", "cellToChildrenSize", "cellToParent", "cellToCenterChild"],
    "C05": ["gridDisk", "gridDiskDistances", "gridDiskDistancesSafe", "gridDiskUnsafe", "gridDiskDistancesUnsafe", "gridDisksUnsafe", "gridRingUnsafe",
            "areNeighborCells", "maxGridDiskSize"],
    "C06": ["compactCells", "uncompactCells", "uncompactCellsSize"],
    "C07": ["polygonToCells", "polygonToCellsExperimental", "maxPolygonToCellsSize", "maxPolygonToCellsSizeExperimental"],
    "C08": ["cellToBoundary", "cellAreaRads2", "cellAreaKm2", "cellAreaM2"],
    "C09": ["gridDistance", "cellToLocalIj", "localIjToCell"],
    "C10": ["cellsToDirectedEdge", "isValidDirectedEdge", "getDirectedEdgeOrigin", "getDirectedEdgeDestination", "directedEdgeToCells", "originToDirectedEdges",
            "directedEdgeToBoundary", "edgeLengthRads", "edgeLengthKm", "edgeLengthM"],
    "C11": ["cellToVertex", "cellToVertexes", "vertexToLatLng", "isValidVertex"],
    "C13": ["cellToChildPos", "childPosToCell", "cellToChildren", "cellToChildrenSize"],
    "C14": ["gridPathCells", "gridPathCellsSize"],
    "C15": ["polygonToCellsExperimental", "maxPolygonToCellsSizeExperimental"],
    "C16": ["cellsToLinkedMultiPolygon", "destroyLinkedMultiPolygon"],
    "C19": ["getIcosahedronFaces", "maxFaceCount"],
    "C20": ["h3ToString", "stringToH3"],
}
# what triggers a table relation: constant tables ("g:") or functions ("f:") the property's code reaches
TAB_SYMS = {
    "T1": ["g:NEW_DIGIT_II", "g:NEW_DIGIT_III", "g:NEW_ADJUSTMENT_II", "g:NEW_ADJUSTMENT_III"],
    "T2": ["g:baseCellNeighbors", "g:baseCellNeighbor60CCWRots"], "T3": ["g:baseCellNeighbors", "g:baseCellNeighbor60CCWRots"],
    "T4": ["g:faceIjkBaseCells"], "T5": ["g:faceNeighbors", "g:adjacentFaceDir"], "T6": ["g:faceCenterPoint", "g:faceCenterGeo"],
    "T8": ["g:directionToVertexNumHex", "g:directionToVertexNumPent", "g:revNeighborDirectionsHex", "f:vertexNumForDirection", "f:directionForVertexNum"],
    "T9": ["g:maxDimByCIIres", "g:unitScaleByCIIres"], "T10": ["f:_rotate60ccw", "f:_rotate60cw"], "T11": ["g:neighborSetClockwise", "g:neighborSetCounterclockwise"],
    "T12": ["g:pentagonDirectionFaces"], "T13": ["g:vertsCII", "g:vertsCIII"], "T14": ["g:PENTAGON_ROTATIONS", "g:PENTAGON_ROTATIONS_REVERSE"],
    "T17": ["g:MAX_EDGE_LENGTH_RADS"], "T19": ["f:_baseCellIsCwOffset"],
    "T20": ["g:PENTAGON_ROTATIONS_REVERSE_NONPOLAR", "g:PENTAGON_ROTATIONS_REVERSE_POLAR"],
    "T21": ["f:_upAp7", "f:_upAp7r", "f:_upAp7Checked", "f:_upAp7rChecked"], "T22": ["f:ijkToIj", "f:ijToIjk", "f:ijkToCube", "f:cubeToIjk"],
}
_reach = {}


def reach(pid, m=None):
    """(functions, constant globals) reachable from the property's entry points through the call graph"""
    if pid in _reach:
        return _reach[pid]
    from . import rules_alloc
    m = m or module(CFG[0], "ssa")
    if pid not in PROP_ENTRIES:
        fns = {f.name for f in m.defined()}
    else:
        for e in PROP_ENTRIES[pid]:
            m.fn(e)
        fns = rules_alloc.reachable(rules_alloc.call_graph(m), PROP_ENTRIES[pid])
    gl = set()
    for fn in fns:
        f = m.functions.get(fn)
        if f is None or f.decl or not f.has_body:
            continue
        for i in f.all_insts():
            for o in i.ops:
                if o[0] == "g":
                    gl.add(o[1])
                elif o[0] == "ce":
                    for leaf in ir.ce_leaves(o):
                        if leaf[0] == "g":
                            gl.add(leaf[1])
    _reach[pid] = (fns, gl)
    return _reach[pid]


def auto_relations(pid):
    fns, gl = reach(pid)
    out = []
    for rel, syms in TAB_SYMS.items():
        for sy in syms:
            kind, name = sy.split(":")
            if kind == "f" and name in fns:
                out.append(rel); break
            if kind == "g" and any(g == name or g.startswith(name + ".") or g.endswith("." + name) for g in gl):
                out.append(rel); break
    return out


def part_tables(rels, only_keys=None, pid=None):
    def run(ctx):
        from . import rules_tab
        m = module(CFG[0], "ssa")
        rl = list(rels)
        if pid is not None:
            for r in sorted(auto_relations(pid), key=lambda x: int(x[1:])):
                if r not in rl:
                    rl.append(r)
        rules_tab.run(ctx, m, CFG[0], rl, only_keys)
        if True:
            ctx.explanation += TAB_TXT % "; ".join(TAB_DESC[r] for r in rl) + " "
            ctx.floor("R-TAB", "relations evaluated", len([o for o in ctx.obligations if o["rule"] == "R-TAB"]), len(rels))
            return
        ctx.explanation += TAB_TXT % "; ".join(TAB_DESC[r] for r in rels) + " "
        ctx.floor("R-TAB", "relations evaluated", len([o for o in ctx.obligations if o["rule"] == "R-TAB"]), len(rels))
    return run


def part_wit(pid):
    def run(ctx):
        from . import rules_wit
        n = rules_wit.check(ctx, pid)
        ctx.explanation += ("R-WIT: _Static_assert witnesses compiled against /repo's headers with the build's flags: index field offsets/widths/masks, "
                            "mode values, grid counts, digit and error-code enumerators (rules/witness.c). ")
        ctx.floor("R-WIT", "witnesses for %s" % pid, n, 1)
    return run


def part_bw(pid):
    def run(ctx):
        from . import rules_bw
        rows = [r for r in rules_bw.ROWS if pid is None or pid in r["props"]]
        inl = sorted({r["fn"] for r in rows if r["mod"] == "inl"})

        def gm(kind, fn):
            return module(CFG[0], kind, inl if kind == "inl" else None)
        n = rules_bw.check(ctx, gm, [pid] if pid else None)
        ctx.explanation += ("R-BW: every store through the output buffer parameter (and every call receiving &buf[index]) is explored with relation "
                            "facts between the index and the documented bound, learnt from branch conditions on the same SSA values and carried through "
                            "phi copies: the write must only happen where index < bound (<= where the capacity is bound+1). ")
        ctx.floor("R-BW", "bounded-write instances for %s" % pid, n, 1)
    return run


def part_cform(pid):
    def run(ctx):
        from . import rules_cform
        n = rules_cform.check(ctx, module(CFG[0], "ssa"), CFG[0], [pid], funcs=reach(pid)[0] if pid in PROP_ENTRIES else None)
        ctx.explanation += ("R-CFORM: the value a function stores is evaluated exactly as an expression DAG over opaque leaves (_ipow(7,e) = 7^e, a callee's "
                            "out-value, a bit field) for the whole finite domain of those leaves and compared with the documented closed form. ")
        ctx.floor("R-CFORM", "closed-form instances for %s" % pid, n, 1)
    return run


def part_ovf(ctx):
    from . import rules_ovf
    n = rules_ovf.check(ctx, module(CFG[0], "ssa"), CFG[0])
    ctx.explanation += ("R-OVF: the functions that call the repository's own overflow predicates are explored with free (non-negative) coordinate "
                        "inputs; at every nsw add/sub/mul/shl the operand ranges learnt from exactly interpreted path conditions must exclude signed wrap. ")
    ctx.floor("R-OVF", "overflow-checked helpers", n, 2)


def part_errdisc(ctx):
    from . import rules_errdisc
    rules_errdisc.check(ctx, module(CFG[0], "ssa"), CFG[0])
    ctx.explanation += ("R-ERRDISC: every call of an H3Error-returning function uses the returned code, except the frozen, individually justified (caller, callee) exceptions. ")


def part_idx(ctx):
    from . import rules_idx
    n = rules_idx.check(ctx, CFG[0], ctx.tier, ir.exported_api())
    rules_idx.check_int(ctx, CFG[0], ctx.tier, ir.exported_api())
    ctx.explanation += ("R-IDX: every exported function taking an index is explored (fully inlined) with the base-cell field assumed 122..127 and the "
                        "reserved/direction field 7: no table subscript that depends on the field may be reachable with a value at or beyond the table's extent "
                        "(quick tier: the %d anchor functions; thorough: all). " % len(rules_idx.QUICK_FUNCS))


def part_sib(ctx):
    from . import rules_sib
    rules_sib.check(ctx, module(CFG[0], "ssa"), CFG[0])
    ctx.floor("R-SIB", "loop tests with a polygon's outer loop or a foreign loop", rules_sib.check_loopbox(ctx, module(CFG[0], "ssa"), CFG[0]), 3)
    ctx.explanation += ("R-SIB: every call that receives a hole of the polygon together with a bounding box uses bboxes[hole index + 1], "
                        "the convention of the writer bboxesFromGeoPolygon (sibling cross-check). ")


def part_slice(ctx):
    from . import rules_sib
    try:
        rules_sib.check_boundary_slice(ctx, module(CFG[0], "ssa"), CFG[0])
    except AnalysisBroken as e:
        ctx.broken("R-SIB", "boundary slice: %s" % e)
    ctx.explanation += ("R-SIB boundary slice: every caller that chooses between the hexagon and the pentagon boundary builder asks both for the same slice "
                        "(same start and length, or the whole ring). ")


def part_bitprov(which, pid=None):
    def run(ctx):
        from . import rules_bitprov
        m = module(CFG[0], "ssa")
        n0 = len([o for o in ctx.obligations if o["rule"] == "R-BITPROV"])
        if pid == "ALL":
            # the closure clause of C01 ("every index any function returns is valid") concerns every index-producing operation
            getattr(rules_bitprov, "check_" + which)(ctx, m, CFG[0], ctx.tier, None)
        elif pid:
            getattr(rules_bitprov, "check_" + which)(ctx, m, CFG[0], ctx.tier, pid, reach(pid, m)[0])
        else:
            getattr(rules_bitprov, "check_" + which)(ctx, m, CFG[0], ctx.tier)
        ctx.explanation += rules_bitprov.TEXT[which] + " "
        ctx.floor("R-BITPROV", "bit-exact instances (%s)" % which, len([o for o in ctx.obligations if o["rule"] == "R-BITPROV"]) - n0 + len([b for b in ctx.brokens if b["rule"] == "R-BITPROV"]), rules_bitprov.FLOOR[which])
    return run


def part_hashmod(fns, floor):
    def run(ctx):
        from . import rules_sib
        n = rules_sib.check_hashmod(ctx, module(CFG[0], "ssa"), CFG[0], fns if not isinstance(fns, str) else reach(fns)[0])
        ctx.explanation += ("R-SIB hashmod: every open-addressing probe `loc = key % M; ... loc = (loc + 1) % M'` wraps around with the modulus it started "
                            "with (M' is the same SSA value as M); instances are found from the IR (rem of phi+1 whose phi web is fed by a rem and subscripts memory). ")
        ctx.floor("R-SIB", "hash probe loops", n, floor)
    return run


def part_argmin(ctx):
    from . import rules_argmin
    try:
        n = rules_argmin.check(ctx, module(CFG[0], "ssa"), CFG[0])
    except AnalysisBroken as e:
        ctx.broken("R-ARGMIN", str(e)); n = 0
    ctx.explanation += ("R-ARGMIN: the face-selection loop of _geoToClosestFace compares every centre of faceCenterPoint (exits: exhaustion at the table extent, or a "
                        "threshold provably below 2-2cos(theta_min/2) computed from the table), replaces the best exactly under d < best, and starts from >= 4.0. ")
    ctx.floor("R-ARGMIN", "clauses", n + len([b for b in ctx.brokens if b["rule"] == "R-ARGMIN"]), 3)


def part_drain(only):
    def run(ctx):
        from . import rules_iterloop
        n = rules_iterloop.check(ctx, module(CFG[0], "ssa"), CFG[0], only)
        ctx.explanation += ("R-DRAIN: the loop that drains the child iterator into the output array stores the element it just tested, before the single "
                            "iterStepChild, at a counter running 0,1,2,..; with R-BITPROV iter-init/iter-step (start = smallest child, step = next child in index "
                            "order, 0 after the last) this gives by induction that the output is the documented child set in increasing order. ")
        ctx.floor("R-DRAIN", "drain loops", n, len(only))
    return run


ERRFLOW_CALLERS = {
    "C05": {"gridDisk", "gridDiskDistances", "gridDiskDistancesSafe", "gridDiskDistancesUnsafe", "gridDiskUnsafe", "gridDisksUnsafe", "gridRingUnsafe",
            "_gridDiskDistancesInternal", "areNeighborCells", "h3NeighborRotations"},
    "C09": {"gridDistance", "cellToLocalIj", "localIjToCell", "cellToLocalIjk", "localIjkToCell"},
    "C10": {"cellsToDirectedEdge", "getDirectedEdgeDestination", "directedEdgeToCells", "originToDirectedEdges", "directedEdgeToBoundary", "edgeLengthRads",
            "edgeLengthKm", "edgeLengthM", "directionForNeighbor"},
    "C11": {"cellToVertex", "cellToVertexes", "vertexToLatLng", "vertexRotations", "directionForVertexNum"},
    "C14": {"gridPathCells", "gridPathCellsSize", "localIjkToCell", "cellToLocalIjk", "gridDistance"},
    "C04": {"cellToChildren", "cellToChildrenSize", "cellToCenterChild", "cellToParent"},
    "C06": {"compactCells", "uncompactCells", "uncompactCellsSize"},
    "C13": {"cellToChildPos", "childPosToCell", "validateChildPos"},
    "C15": {"polygonToCellsExperimental", "maxPolygonToCellsSizeExperimental", "iterInitPolygonCompact", "iterStepPolygonCompact"},
    "C19": {"getIcosahedronFaces", "maxFaceCount"},
    "C08": {"cellAreaRads2", "cellAreaKm2", "cellAreaM2", "cellToBoundary"},
    "C02": {"latLngToCell"}, "C03": {"cellToLatLng", "getPentagons", "getRes0Cells"},
}


def part_errflow(pid):
    def run(ctx):
        from . import rules_errflow, rules_ret
        m = module(CFG[0], "ssa")
        if not getattr(rules_ret.check, "last_sets", None) or getattr(rules_ret.check, "last_mod", None) is not m:
            sub = core.Ctx(ctx.pid)
            rules_ret.check(sub, m, CFG[0], ir.exported_api())
            rules_ret.check.last_mod = m
        n = rules_errflow.check(ctx, m, CFG[0], rules_ret.check.last_sets, None if pid == "C12" else (set(ERRFLOW_CALLERS.get(pid, ())) | reach(pid, m)[0]))
        ctx.explanation += ("R-ERRFLOW: for every used call of an H3Error-returning function and every non-zero code in the callee's value set, the caller explored "
                            "from the call with that result cannot reach `return E_SUCCESS` on an exactly interpreted path (one frozen, justified exception). ")
        if pid == "C12":
            ctx.floor("R-ERRFLOW", "used H3Error call sites in H3Error-returning callers", n, 70)
    return run


def part_fold(pid):
    def run(ctx):
        from . import rules_fold
        n = rules_fold.check(ctx, module(CFG[0], "ssa"), CFG[0], [pid])
        ctx.explanation += ("R-FOLD: the edge length / cell area is accumulated as one term per consecutive pair of boundary vertices (pair sets derived from the loop "
                            "counter, bound and subscripts for numVerts = 2..10; accumulator starts at 0.0, every term added once, result stored). ")
        ctx.floor("R-FOLD", "fold instances for %s" % pid, n, 1)
    return run


def part_walk(ctx):
    from . import rules_walk, rules_sib
    try:
        rules_sib.check_passthrough(ctx, module(CFG[0], "ssa"), CFG[0], pid="C05")
        ctx.explanation += ("R-SIB passthrough: the wrappers of the disk family hand origin, k and the output to their worker unchanged (initial distance 0). ")
    except AnalysisBroken as e:
        ctx.broken("R-SIB", "passthrough: %s" % e)
    n = rules_walk.check(ctx, module(CFG[0], "ssa"), CFG[0])
    ctx.explanation += ("R-WALK: typestate on the control skeleton of the success path of gridRingUnsafe / gridDiskDistancesUnsafe for k = 1..5 (callees replaced by "
                        "effect summaries, cells opaque): every walk step starts from a cell that was tested with isPentagon, every cell written was tested. ")
    ctx.floor("R-WALK", "in-place ring walks", n + len([b for b in ctx.brokens if b["rule"] == "R-WALK"]), 2)


def part_tol(pid):
    def run(ctx):
        from . import rules_tol
        try:
            n = rules_tol.check(ctx, module(CFG[0], "ssa"), CFG[0], reach(pid)[0] if pid in PROP_ENTRIES else None)
        except AnalysisBroken as e:
            ctx.broken("R-TOL", str(e))
            n = 1
        ctx.explanation += ("R-TOL: every tolerance with which vertex coordinates are declared equal (geoAlmostEqualThreshold, reachable from the property's entry points) is a "
                            "constant below a quarter of the average res-15 edge in radians (from the library's own edge-length table and Earth radius). ")
        ctx.floor("R-TOL", "coordinate-equality tolerances", n, 1)
    return run


def part_substrate(ctx):
    from . import rules_sym
    n = rules_sym.check_substrate(ctx, module(CFG[0], "ssa"), CFG[0])
    ctx.explanation += ("R-SYM substrate: every caller that adjusts a substrate-grid vertex with _adjustOverageClassII (substrate = 1) passes pentLeading4 = 0 like its "
                        "siblings (the leading-digit rotation applies to cell centres only). ")
    ctx.floor("R-SYM", "vertex callers of _adjustOverageClassII", n, 3)


def part_round3(ctx):
    from . import rules_sym
    n = rules_sym.check_round3(ctx, module(CFG[0], "ssa"), CFG[0])
    ctx.explanation += ("R-SYM round3: the helper that turns an interpolated cube-coordinate point of the path into a cell converts its three coordinates alike, each "
                        "to the nearest integer (a directed conversion of one of them is reported). ")
    ctx.floor("R-SYM", "cube rounding helpers reachable from gridPathCells", n, 1)
    n = rules_sym.check_interp_width(ctx, module(CFG[0], "ssa"), CFG[0])
    ctx.explanation += ("R-SYM width: the coordinates handed to that helper are computed in double precision (no float-typed value in their backward slice). ")
    ctx.floor("R-SYM", "calls of the cube rounding helper", n, 1)


def part_qloop(ctx):
    from . import rules_qloop
    try:
        n = rules_qloop.check(ctx, module(CFG[0], "ssa"), CFG[0])
    except AnalysisBroken as e:
        ctx.broken("R-QLOOP", str(e)); n = 2
    ctx.explanation += ("R-QLOOP: a bool predicate that loops over the holes of a polygon leaves the loop early only towards returns of one constant (the answer a single hole can "
                        "decide); the opposite answer is only given after all holes were looked at. ")
    ctx.floor("R-QLOOP", "predicates quantifying over holes", n, 2)


def part_gate(ctx):
    from . import rules_gate
    n = rules_gate.check(ctx, module(CFG[0], "ssa"), CFG[0])
    ctx.explanation += ("R-GATE: a cell reaches the output only through the containment test of its own geometry: polygonToCells stores a cell only after "
                        "pointInsidePolygon succeeded on the centre of that very cell (polygon = the parameter, boxes filled from it, slot not already holding it); "
                        "iterStepPolygonCompact, explored with the containment mode fixed, emits a cell in mode CENTER only through the centre test of that cell or the "
                        "inside test of the box covering its descendants, in mode FULL only through the boundary-inside test or the latter; in the two overlapping modes every path to an "
                        "emitting store passes the success edge of one of the tests that mode admits (disjunctive gating: the graph without those edges does not reach the store). ")
    ctx.floor("R-GATE", "emitting sites / modes", n, 3)


def part_family(ctx):
    from . import rules_compact
    n = rules_compact.check(ctx, module(CFG[0], "ssa"), CFG[0])
    ctx.explanation += ("R-FAMILY: every site of compactCells that reads the child counter in the reserved bits is explored for all reachable counter values and both answers of "
                        "isPentagon(parent): duplicates are reported exactly when one more child would exceed the family (7, pentagon 6), a parent is collected exactly when "
                        "its family is complete, the lookup drops exactly the children of collected parents; a copy from a work list to the output that skips this "
                        "classification moves at most 5 cells. ")
    ctx.floor("R-FAMILY", "counter sites and bulk copies of compactCells", n, 4)


def part_unitvec(ctx):
    from . import rules_unitvec
    n = rules_unitvec.check(ctx, module(CFG[0], "ssa"), CFG[0])
    ctx.explanation += ("R-UNITVEC: wherever the result of _unitIjkToDigit subscripts a 7-wide table, either the result is tested against INVALID_DIGIT first, or every "
                        "path to the call bounds the three components of the normalised argument to 0..1 (exactly the UNIT_VECS); a small non-unit triple that passes "
                        "the tests and reaches the subscript is reported with the triple as witness. ")
    ctx.floor("R-UNITVEC", "_unitIjkToDigit results used as subscripts", n + len([b for b in ctx.brokens if b["rule"] == "R-UNITVEC"]), 2)


def part_fmt(ctx):
    from . import rules_fmt
    n = rules_fmt.check(ctx, module(CFG[0], "ssa"), CFG[0])
    ctx.explanation += ("R-FMT: every printf/scanf-family call has a constant format; h3ToString uses exactly one unpadded lower-case 64-bit %x applied to "
                        "the whole index and written to str, its longest output (derived from the format) + NUL is never reachable with a smaller sz; "
                        "stringToH3 parses with the same conversion into the H3Index it stores. ")
    ctx.floor("R-FMT", "format call sites", n, 2)


def part_ret(ctx):
    from . import rules_ret
    n = rules_ret.check(ctx, module(CFG[0], "ssa"), CFG[0], ir.exported_api())
    ctx.explanation += ("R-RET: value-set fixpoint over everything typed H3Error in debug info (returns, parameters, iterator error fields): every "
                        "function can only return codes 0..15. ")
    ctx.floor("R-RET", "functions returning H3Error", n, 60)


PARTS = {
    "C01": [part_guards("C01"), part_bitprov("validity"), part_bitprov("indexops", "ALL"), part_tables(["T7"], {"T7": ["isBaseCellPentagonArr"]}, pid="C01"), part_cform("C01"), part_wit("C01")],
    "C02": [part_guards("C02"), part_argmin, part_bitprov("indexops", "C02"), part_tables(["T6", "T16", "T19"], pid="C02"), part_wit("C02")],
    "C03": [part_guards("C03"), part_argmin, part_bitprov("validity"), part_bitprov("indexops", "C03"), part_tables(["T7", "T4", "T5", "T9", "T19", "T21"], {"T7": ["isBaseCellPentagonArr", "pentagonCount", "res0CellCount", "getRes0Cells", "getPentagons", "baseCellNeighbors:rows", "baseCellNeighbor60CCWRots:rows"]}, pid="C03"), part_cform("C03"), part_wit("C03")],
    "C04": [part_guards("C04"), part_errflow("C04"), part_bitprov("indexops", "C04"), part_drain(["cellToChildren"]), part_cform("C04"), part_tables(["T7"], {"T7": ["isBaseCellPentagonArr"]}, pid="C04"), part_wit("C04")],
    "C05": [part_guards("C05"), part_errflow("C05"), part_bitprov("indexops", "C05"), part_tables(["T1", "T2", "T3", "T10", "T11", "T7", "T19"], {"T7": ["baseCellNeighbors", "baseCellNeighbor60CCWRots"]}, pid="C05"), part_cform("C05"), part_walk, part_hashmod("C05", 1), part_wit("C05")],
    "C06": [part_guards("C06"), part_errflow("C06"), part_bitprov("indexops", "C06"), part_drain(["uncompactCells"]), part_bw("C06"), part_cform("C06"), part_hashmod("C06", 2), part_family],
    "C07": [part_gate, part_qloop, part_sib, part_errflow("C07"), part_tables(["T17", "T18"], pid="C07")],
    "C08": [part_fold("C08"), part_tables(["T5", "T9", "T13"], pid="C08"), part_cform("C08"), part_slice, part_substrate, part_wit("C08")],
    "C09": [part_guards("C09"), part_errflow("C09"), part_bitprov("indexops", "C09"), part_tables(["T1", "T2", "T3", "T10", "T14", "T20", "T21", "T22"], pid="C09"), part_ovf, part_unitvec, part_wit("C09")],
    "C10": [part_guards("C10"), part_errflow("C10"), part_bitprov("indexops", "C10"), part_tables(["T8", "T12"], pid="C10"), part_cform("C10"), part_fold("C10"), part_slice, part_wit("C10")],
    "C11": [part_guards("C11"), part_errflow("C11"), part_tables(["T8", "T12", "T7"], {"T7": ["pentagonDirectionFaces"]}, pid="C11"), part_slice, part_wit("C11")],
    "C12": [part_guards("C12"), part_bitprov("validity"), part_bitprov("indexops", "C12"), part_ret, part_errdisc, part_errflow("C12"), part_ovf, part_idx, part_unitvec, part_bw(None), part_hashmod(None, 5), part_cform("C12"), part_wit("C12")],
    "C13": [part_guards("C13"), part_errflow("C13"), part_bitprov("indexops", "C13"), part_cform("C13"), part_wit("C13")], "C14": [part_guards("C14"), part_errflow("C14"), part_bw("C14"), part_cform("C14"), part_tables(["T14", "T20", "T21", "T22"], pid="C14"), part_unitvec, part_round3], "C15": [part_guards("C15"), part_errflow("C15"), part_bw("C15"), part_sib, part_gate, part_qloop, part_tables(["T17", "T18"], pid="C15"), part_wit("C15")],
    "C19": [part_guards("C19"), part_tables(["T5", "T9"], pid="C19"), part_bw("C19"), part_cform("C19"), part_substrate, part_wit("C19")],
    "C20": [part_guards("C20"), part_fmt, part_wit("C20")],
}


def composite(pid):
    def run(ctx):
        if ctx.tier == "thorough" and CFG[0] == "release":
            # as deep as the machinery goes: the whole property again on the assertion-enabled build (different IR: NEVER()/assert() branches)
            run_one(ctx)
            CFG[0] = "assert"
            _reach.clear()
            try:
                run_one(ctx)
            finally:
                CFG[0] = "release"
                _reach.clear()
            return
        run_one(ctx)

    def run_one(ctx):
        for part in PARTS[pid]:
            part(ctx)
        # progression tables (per-resolution powers) reachable from the property's code have no deviant entry
        if pid in PROP_ENTRIES:
            from . import rules_prog
            try:
                rules_prog.check(ctx, module(CFG[0], "ssa"), CFG[0], reach(pid)[1])
            except AnalysisBroken as e:
                ctx.broken("R-PROG", str(e))
        # the validity predicate is part of every property whose code reaches isValidCell
        if pid in PROP_ENTRIES and "isValidCell" in reach(pid)[0] and not any(o["rule"] == "R-BITPROV" and isinstance(o["instance"], dict) and o["instance"].get("function") == "isValidCell" for o in ctx.obligations):
            part_bitprov("validity")(ctx)
            part_tables(["T7"], {"T7": ["isBaseCellPentagonArr"]})(ctx)
    return run


C16_FUNCS = None   # every function of linkedGeo.c / vertexGraph.c / the multipolygon path that allocates


def C16(ctx):
    from . import rules_alloc, rules_linked
    ctx.explanation = ("Memory clause of C16 only. R-ALLOC typestate on every allocating function of the multipolygon path (normalizeMultiPolygon, "
                       "findPolygonForHole, addVertexNode, builders): scratch arrays freed on every path, no double free. R-OWN L2-L5: a local vertex "
                       "graph is destroyed on every path after initialisation (a failing initialiser destroys it itself), cellsToLinkedMultiPolygon "
                       "destroys the result before returning an error, normalizeMultiPolygon frees a hole it cannot place, and every struct type the "
                       "builders allocate is freed in the call tree of destroyLinkedMultiPolygon / destroyVertexGraph. R-TOL: the tolerance with which edge end points are matched (geoAlmostEqualThreshold) is a constant below a quarter of the average res-15 edge in radians. "
                       "R-SYM selfexcl: a function that counts the polygons of a list containing a loop taken from that same list calls the containment test only on the "
                       "not-equal edge of a comparison between the tested loop and that loop (a loop is never tested against itself).")
    for cfg in (["release", "assert"] if ctx.tier == "thorough" else ["release"]):
        m = module(cfg, "ssa")
        cg = rules_alloc.call_graph(m)
        fns = rules_alloc.reachable(cg, ["cellsToLinkedMultiPolygon", "destroyLinkedMultiPolygon"])
        only = {f.name for f in m.defined() if f.name in fns}
        nsites, nfun = rules_alloc.check_alloc(ctx, m, cfg, set(), only=only)
        ctx.floor("R-ALLOC", "allocation sites on the multipolygon path (%s)" % cfg, nsites, 7)
        rules_linked.check(ctx, m, cfg)
        ctx.floor("R-OWN", "addNewLinkedPolygon call sites (%s)" % cfg, rules_linked.check_tail_protocol(ctx, m, cfg), 1)
        from . import rules_sib
        ctx.floor("R-SIB", "loop / bounding-box pairings (%s)" % cfg, rules_sib.check_candbbox(ctx, m, cfg), 2)
        try:
            rules_sib.check_passthrough(ctx, m, cfg, pid="C16")
        except AnalysisBroken as e:
            ctx.broken("R-SIB", "passthrough: %s" % e)
        try:
            rules_linked.check_hole_loop(ctx, m, cfg)
        except AnalysisBroken as e:
            ctx.broken("R-OWN", "L7: %s" % e)
        from . import rules_sym
        ctx.floor("R-SYM", "container counts over a list that holds the tested loop (%s)" % cfg, rules_sym.check_selfexcl(ctx, m, cfg), 1)
        from . import rules_tol
        try:
            ctx.floor("R-TOL", "coordinate-equality tolerances (%s)" % cfg, rules_tol.check(ctx, m, cfg, fns | {"geoAlmostEqual"}), 1)
        except AnalysisBroken as e:
            ctx.broken("R-TOL", str(e))
    ctx.assumptions += ["allocation failure inside linkedGeo.c / vertexGraph.c is an assert (compiled out with NDEBUG): NULL results are not tested there, so only leak / double-free typestate applies",
                        "the outline itself (loop count, winding, area) is not decided: it depends on bit-level agreement of vertex coordinates and a float hash"]


PROPS = {"C16": C16, "C17": C17, "C18": C18}
for _pid in PARTS:
    PROPS[_pid] = composite(_pid)


def main(argv):
    if not argv:
        print("usage: check <property> [--tier quick|thorough] [--replay file]"); return 2
    pid = argv[0]
    tier = os.environ.get("VERIF_TIER", "quick")
    replay = None
    noev = False
    k = 1
    while k < len(argv):
        if argv[k] == "--tier": tier = argv[k + 1]; k += 2
        elif argv[k] == "--replay": replay = argv[k + 1]; k += 2
        elif argv[k] == "--no-evidence": noev = True; k += 1
        else: k += 1
    if tier not in ("quick", "thorough"):
        tier = "quick"
    seed = int(os.environ.get("VERIF_SEED", "0") or 0)
    ctx = core.Ctx(pid, tier, seed)
    ctx.no_evidence = noev
    if pid not in PROPS:
        print("no check for", pid); return 2
    if replay:
        r = json.load(open(replay))
        ctx.replay_only = r["key"]
        print("replaying %s on the current tree: %s" % (r["key"], r["message"]))
    try:
        PROPS[pid](ctx)
    except AnalysisBroken as e:
        ctx.broken("build/anchor", str(e))
    except Exception as e:
        traceback.print_exc()
        ctx.broken("internal", "checker crashed: %r" % (e,))
    if replay:
        hits = [v for v in ctx.violations if v["key"] == ctx.replay_only]
        ctx.violations = hits
        if not hits:
            print("instance %s no longer violates on the current tree" % ctx.replay_only)
    return ctx.finish()
