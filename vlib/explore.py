"""Assume-and-explore engine (DESIGN.md 2.4, R-GUARD paragraph).

A small path-sensitive conditional constant/range propagation over one function's
CFG.  Abstract values:
   ("int", w, ((lo,hi),...))      set of w-bit values as disjoint unsigned intervals
   ("ptr", site, nullness)        pointer: allocation-site id or None; "null" | "nonnull" | "maybe"
   ("fp", frozenset(classes))     subset of {"fin","pinf","ninf","nan"}
   None                           unknown (top)
The state is an environment {value key -> abstract value} holding only (a) assumptions,
(b) phi values assigned per incoming edge, (c) refinements learnt from branch
conditions, (d) plugin keys (typestates, flags).  Everything else is evaluated lazily from
its defining instruction.  States are kept apart (disjunctive) and merged only when equal;
environments are pruned by liveness.  Phis on a def-use cycle through arithmetic are always
unknown, so every tracked value is drawn from a finite set and exploration terminates.

Nothing is executed: the engine only interprets compare/branch/phi/cast/mask instructions.
"""
from . import ir
from .build import AnalysisBroken

TOP = None
FP_ALL = frozenset(("fin", "pinf", "ninf", "nan"))


# ------------------------------------------------------------------ integer sets
def full(w):
    return ("int", w, ((0, (1 << w) - 1),))


def const(v, w):
    v &= (1 << w) - 1
    return ("int", w, ((v, v),))


def mk(w, ivs):
    ivs = sorted((max(0, a), min((1 << w) - 1, b)) for a, b in ivs if a <= b)
    out = []
    for a, b in ivs:
        if a > b:
            continue
        if out and a <= out[-1][1] + 1:
            out[-1] = (out[-1][0], max(out[-1][1], b))
        else:
            out.append((a, b))
    return ("int", w, tuple(out))


def is_empty(av):
    return av is not None and av[0] == "int" and not av[2]


def is_full(av):
    return av is None or (av[0] == "int" and av[2] == ((0, (1 << av[1]) - 1),))


def singleton(av):
    if av is not None and av[0] == "int" and len(av[2]) == 1 and av[2][0][0] == av[2][0][1]:
        return av[2][0][0]
    return None


def to_signed_ivs(av):
    """list of (lo,hi) on the signed line"""
    w = av[1]
    half = 1 << (w - 1)
    out = []
    for a, b in av[2]:
        if b < half:
            out.append((a, b))
        elif a >= half:
            out.append((a - (1 << w), b - (1 << w)))
        else:
            out.append((a, half - 1))
            out.append((-half, b - (1 << w)))
    return sorted(out)


def from_signed_ivs(w, ivs):
    out = []
    m = 1 << w
    half = 1 << (w - 1)
    for a, b in ivs:
        a = max(a, -half)
        b = min(b, half - 1)
        if a > b:
            continue
        if b < 0:
            out.append((a + m, b + m))
        elif a >= 0:
            out.append((a, b))
        else:
            out.append((a + m, m - 1))
            out.append((0, b))
    return mk(w, out)


def inter(a, b):
    if a is None:
        return b
    if b is None:
        return a
    w = a[1]
    out = []
    for x in a[2]:
        for y in b[2]:
            lo, hi = max(x[0], y[0]), min(x[1], y[1])
            if lo <= hi:
                out.append((lo, hi))
    return mk(w, out)


def union(a, b):
    if a is None or b is None:
        return None
    if a[0] != "int" or b[0] != "int":
        if a == b:
            return a
        if a[0] == "fp" and b[0] == "fp":
            return ("fp", a[1] | b[1])
        if a[0] == "ptr" and b[0] == "ptr":
            return ("ptr", a[1] if a[1] == b[1] else None, a[2] if a[2] == b[2] else "maybe")
        return None
    return mk(a[1], a[2] + b[2])


def minus(a, b):
    """a \\ b for int sets"""
    w = a[1]
    out = list(a[2])
    for c, d in b[2]:
        nxt = []
        for x, y in out:
            if d < x or c > y:
                nxt.append((x, y))
            else:
                if x < c:
                    nxt.append((x, c - 1))
                if d < y:
                    nxt.append((d + 1, y))
        out = nxt
    return mk(w, out)


def count(av):
    return sum(b - a + 1 for a, b in av[2])


def umin(av): return av[2][0][0]
def umax(av): return av[2][-1][1]


def fmt(av):
    if av is None:
        return "?"
    if av[0] == "int":
        s = to_signed_ivs(av) if av[1] > 1 else list(av[2])
        return "{" + ",".join(("%d" % a) if a == b else "%d..%d" % (a, b) for a, b in s) + "}"
    return str(av[1:])


_PRED_SWAP = {"eq": "eq", "ne": "ne", "ult": "ugt", "ugt": "ult", "ule": "uge", "uge": "ule",
              "slt": "sgt", "sgt": "slt", "sle": "sge", "sge": "sle"}
_PRED_NEG = {"eq": "ne", "ne": "eq", "ult": "uge", "uge": "ult", "ule": "ugt", "ugt": "ule",
             "slt": "sge", "sge": "slt", "sle": "sgt", "sgt": "sle"}


def icmp_eval(pred, a, b):
    """set of possible truth values of (a pred b)"""
    if a is None or b is None or a[0] != "int" or b[0] != "int":
        return {True, False}
    if is_empty(a) or is_empty(b):
        return set()
    if pred in ("eq", "ne"):
        common = inter(a, b)
        if is_empty(common):
            r = {False}
        elif singleton(a) is not None and singleton(a) == singleton(b):
            r = {True}
        else:
            r = {True, False}
        return r if pred == "eq" else {not x for x in r}
    if pred[0] == "s":
        sa, sb = to_signed_ivs(a), to_signed_ivs(b)
        amin, amax, bmin, bmax = sa[0][0], sa[-1][1], sb[0][0], sb[-1][1]
    else:
        amin, amax, bmin, bmax = umin(a), umax(a), umin(b), umax(b)
    p = pred[1:]
    if p == "lt":
        always, never = amax < bmin, amin >= bmax
    elif p == "le":
        always, never = amax <= bmin, amin > bmax
    elif p == "gt":
        always, never = amin > bmax, amax <= bmin
    else:
        always, never = amin >= bmax, amax < bmin
    if always:
        return {True}
    if never:
        return {False}
    return {True, False}


def icmp_refine(pred, a, b, w):
    """subset of a for which (a pred b) can hold for some value of b"""
    if a is None:
        a = full(w)
    if b is None or b[0] != "int" or is_empty(b):
        return a
    if pred == "eq":
        return inter(a, b)
    if pred == "ne":
        s = singleton(b)
        return minus(a, b) if s is not None else a
    if pred[0] == "s":
        sb = to_signed_ivs(b)
        bmin, bmax = sb[0][0], sb[-1][1]
        big = 1 << w
        p = pred[1:]
        if p == "lt":
            lim = from_signed_ivs(w, [(-big, bmax - 1)])
        elif p == "le":
            lim = from_signed_ivs(w, [(-big, bmax)])
        elif p == "gt":
            lim = from_signed_ivs(w, [(bmin + 1, big)])
        else:
            lim = from_signed_ivs(w, [(bmin, big)])
        return inter(a, lim)
    bmin, bmax = umin(b), umax(b)
    m = (1 << w) - 1
    p = pred[1:]
    if p == "lt":
        lim = mk(w, [(0, bmax - 1)])
    elif p == "le":
        lim = mk(w, [(0, bmax)])
    elif p == "gt":
        lim = mk(w, [(bmin + 1, m)])
    else:
        lim = mk(w, [(bmin, m)])
    return inter(a, lim)


def _fcmp_class(pred, cls, cinf_sign):
    """truth of `x pred (+/-)inf` for x in class cls"""
    if cls == "nan":
        return pred[0] == "u" and pred not in ("uno",) or pred == "uno"
    same = (cls == "pinf" and cinf_sign > 0) or (cls == "ninf" and cinf_sign < 0)
    # ordered relation of x vs the infinity constant
    if same:
        rel = "eq"
    elif cinf_sign > 0:
        rel = "lt"
    else:
        rel = "gt"
    p = pred[1:] if pred[0] in "ou" and pred not in ("ord", "uno", "one", "une") else pred
    if pred in ("ord",):
        return True
    if pred in ("uno",):
        return False
    if pred in ("one", "une"):
        return rel != "eq"
    return {"eq": rel == "eq", "ne": rel != "eq", "lt": rel == "lt", "le": rel in ("lt", "eq"),
            "gt": rel == "gt", "ge": rel in ("gt", "eq")}[p]


def int_width(t):
    if t.startswith("i") and t[1:].isdigit():
        return int(t[1:])
    return None


# ------------------------------------------------------------------ per-function static info
EVALUABLE = {"and", "or", "xor", "lshr", "ashr", "shl", "trunc", "zext", "sext", "add", "sub", "mul", "urem", "srem",
             "udiv", "sdiv", "icmp", "fcmp", "select", "bitcast", "getelementptr", "freeze"}


class FnInfo:
    """liveness and cyclic-phi information, computed once per function"""

    def __init__(self, f):
        self.f = f
        self._cyclic = None
        self._live = None
        self._closure = {}

    def cyclic_phis(self):
        if self._cyclic is not None:
            return self._cyclic
        f = self.f
        # def-use graph on instruction ids; SCCs via iterative Tarjan
        succ = {}
        for i in f.all_insts():
            if i.op != "phi" and (i.op not in EVALUABLE or i.op == "getelementptr"):
                continue        # results of loads, calls, ... are leaves: a cycle through them cannot grow a value
            for o in i.ops:
                if o[0] == "i":
                    succ.setdefault(o[1], []).append(i.id)
        index = {}
        low = {}
        onst = set()
        st = []
        sccs = []
        counter = [0]
        for root in list(f.insts):
            if root in index:
                continue
            work = [(root, 0)]
            while work:
                v, pi = work[-1]
                if pi == 0:
                    index[v] = low[v] = counter[0]
                    counter[0] += 1
                    st.append(v)
                    onst.add(v)
                ch = succ.get(v, [])
                if pi < len(ch):
                    work[-1] = (v, pi + 1)
                    w = ch[pi]
                    if w not in index:
                        work.append((w, 0))
                    elif w in onst:
                        low[v] = min(low[v], index[w])
                else:
                    work.pop()
                    if work:
                        u = work[-1][0]
                        low[u] = min(low[u], low[v])
                    if low[v] == index[v]:
                        comp = []
                        while True:
                            w = st.pop()
                            onst.discard(w)
                            comp.append(w)
                            if w == v:
                                break
                        sccs.append(comp)
        cyc = set()
        self.scc_of = {}
        for n_, comp in enumerate(sccs):
            if len(comp) == 1:
                v = comp[0]
                if v not in succ.get(v, []):
                    continue
            arith = any(f.insts[v].op not in ("phi", "bitcast", "select", "freeze") for v in comp)
            if arith:
                for v in comp:
                    self.scc_of[v] = n_
                    if f.insts[v].op == "phi":
                        cyc.add(v)
        self._cyclic = cyc
        return cyc

    def closure(self, key):
        """value keys the lazy evaluation of `key` may consult"""
        if key in self._closure:
            return self._closure[key]
        out = set()
        work = [key]
        while work:
            k = work.pop()
            if k in out:
                continue
            out.add(k)
            if k[0] == "i":
                i = self.f.insts[k[1]]
                if i.op in EVALUABLE:
                    for o in i.ops:
                        if o[0] in ("i", "a"):
                            work.append((o[0], o[1]))
        self._closure[key] = out
        return out

    def monotone_phis(self):
        """{phi id: +1 | -1} for loop counters: every incoming value is either independent of the phi (an entry value)
        or `add nsw/nuw phi, c` with a constant of one sign.  Their entry value bounds them from below (above)."""
        if getattr(self, "_mono", None) is not None:
            return self._mono
        out = {}
        dyn = set()
        self.mono_dyn = dyn
        for i in self.f.all_insts():
            if i.op != "phi" or not (i.type.startswith("i") and i.type[1:].isdigit()):
                continue
            w = int(i.type[1:])
            sign = 0
            ok = True
            for o in i.ops:
                if o[0] == "i":
                    d = self.f.insts[o[1]]
                    if d.op == "add" and d.ops[0] == ["i", i.id] and d.ops[1][0] == "c":
                        c = ir.cint_signed(d.ops[1])
                        sg = 1 if c > 0 else -1 if c < 0 else 0
                        if sg == 0 or (sign and sg != sign) or (sg < 0 and not d.d.get("nsw")):
                            ok = False
                        if not (d.d.get("nsw") or d.d.get("nuw")):
                            dyn.add(i.id)      # plain add: the back edge must show that the increment cannot wrap
                        sign = sg
                        continue
                    if ("i", i.id) in self.closure_phi(("i", o[1])):
                        ok = False
                elif o[0] not in ("c", "a"):
                    ok = False
            if ok and sign:
                out[i.id] = sign
        self._mono = out
        return out

    def closure_phi(self, key):
        """static data dependence: like closure() but also through phi operands"""
        ck = ("phi", key)
        if ck in self._closure:
            return self._closure[ck]
        out = set()
        work = [key]
        while work:
            k = work.pop()
            if k in out:
                continue
            out.add(k)
            if k[0] == "i":
                i = self.f.insts[k[1]]
                if i.op in EVALUABLE or i.op == "phi":
                    for o in i.ops:
                        if o[0] in ("i", "a"):
                            work.append((o[0], o[1]))
        self._closure[ck] = out
        return out

    def live_after_phis(self):
        """per block: value keys live just after the phis of the block (uses closed under lazy evaluation)"""
        if self._live is not None:
            return self._live
        f = self.f
        n = len(f.blocks)
        use = [set() for _ in range(n)]       # upward-exposed uses (non-phi part)
        defs = [set() for _ in range(n)]      # defs incl. phis
        phiuse = [dict() for _ in range(n)]   # block -> {pred: set(keys)} uses on incoming edges
        phidefs = [set() for _ in range(n)]
        for b in f.blocks:
            d = set()                         # non-phi defs
            u = set()                         # uses after the phis, not preceded by a non-phi def in the block
            for i in b.insts:
                if i.op == "phi":
                    for o, p in zip(i.ops, i.d["inc"]):
                        if o[0] in ("i", "a"):
                            phiuse[b.idx].setdefault(p, set()).update(self.closure((o[0], o[1])))
                    phidefs[b.idx].add(("i", i.id))
                    continue
                for o in i.ops:
                    if o[0] in ("i", "a"):
                        for k in self.closure((o[0], o[1])):
                            if k not in d:
                                u.add(k)
                d.add(("i", i.id))
            use[b.idx] = u
            defs[b.idx] = d
        live_in = [set(u) for u in use]      # live just after the phis
        changed = True
        order = list(range(n))[::-1]
        while changed:
            changed = False
            for bi in order:
                b = f.blocks[bi]
                out = set()
                for s in set(b.succs()):
                    out |= (live_in[s] - phidefs[s])
                    out |= phiuse[s].get(bi, set())
                new = use[bi] | (out - defs[bi])
                if new != live_in[bi]:
                    live_in[bi] = new
                    changed = True
        self._live = live_in
        return live_in


_fninfo = {}


def fninfo(f):
    k = (id(f.module), f.name)
    if k not in _fninfo:
        _fninfo[k] = FnInfo(f)
    return _fninfo[k]


# ------------------------------------------------------------------ the explorer
class State:
    __slots__ = ("env", "approx", "trail")

    def __init__(self, env, approx=False, trail=()):
        self.env = env
        self.approx = approx
        self.trail = trail

    def key(self):
        return (frozenset(self.env.items()), self.approx)


class Explorer:
    """Explore function f from its entry under `assume` (value key -> AV) and `assume_def`
    (instruction id -> AV, applied whenever that instruction executes).
    plugin: object with optional methods on_inst(ex, state, inst) -> None|list[State] , on_ret(ex, state, inst)
    """
    CAP = 400          # states per block before merging
    MAXSTEPS = 400000

    def __init__(self, f, assume=None, assume_def=None, plugin=None, pairs=(), keep_trail=True, start_block=0):
        self.f = f
        self.info = fninfo(f)
        self.assume = dict(assume or {})
        self.assume_def = dict(assume_def or {})
        self.assume_once = {}           # inst id -> (AV of the first execution on a path, [AVs of later executions])
        self.plugin = plugin
        self.pairs = set(pairs)         # designated (keyA, keyB) relation pairs
        self.pair_keys = {k for p in self.pairs for k in p}
        self.sticky = {k for k in self.assume if k[0] == "rel"}     # assumed relations describe the value itself: never invalidated
        self.cyclic = self.info.cyclic_phis()
        self.mono = self.info.monotone_phis()
        self.live = self.info.live_after_phis()
        self.rets = []                  # (state, ret inst, AV of returned value)
        self.visited_blocks = set()
        self.merged = False
        self.steps = 0
        self.keep_trail = keep_trail
        self.start_block = start_block
        self.tainted_conds = []         # undecidable conditions that depend on assumptions
        self.stop = False               # a plugin may end the exploration early
        self.track_taint = False        # dynamic provenance: which phi values were copied from assumption-dependent values

    # ---------------- evaluation
    def eval(self, o, env, memo=None):
        if memo is None:
            memo = {}
        k = o[0]
        if k == "c":
            return const(o[1], o[2])
        if k == "null":
            return ("ptr", None, "null")
        if k == "f":
            v = o[1]
            if v == "nan":
                return ("fp", frozenset(("nan",)))
            if v == "inf":
                return ("fp", frozenset(("pinf",)))
            if v == "-inf":
                return ("fp", frozenset(("ninf",)))
            return ("fp", frozenset(("fin",)))
        if k == "a":
            return env.get(("a", o[1]), TOP)
        if k in ("g", "fn"):
            return ("ptr", None, "nonnull")
        if k == "ce":
            if o[1] in ("getelementptr", "bitcast"):
                return ("ptr", None, "nonnull")
            return TOP
        if k != "i":
            return TOP
        key = ("i", o[1])
        if key in env:
            return env[key]
        if key in memo:
            return memo[key]
        memo[key] = TOP  # cycle guard
        v = self._eval_inst(self.f.insts[o[1]], env, memo)
        memo[key] = v
        return v

    def _eval_inst(self, i, env, memo):
        op = i.op
        w = int_width(i.type)
        ev = lambda o: self.eval(o, env, memo)
        if op == "phi":
            return TOP
        if op in ("bitcast", "freeze"):
            return ev(i.ops[0])
        if op == "getelementptr":
            base = ev(i.ops[0])
            if base is not None and base[0] == "ptr":
                allzero = all(o[0] == "c" and o[1] == 0 for o in i.ops[1:])
                if allzero:
                    return base
                # an in-bounds offset from a null-checked pointer is treated as non-null; keeps the site
                return ("ptr", base[1], base[2] if base[2] != "null" else "maybe")
            return TOP
        if op == "icmp":
            a, b = ev(i.ops[0]), ev(i.ops[1])
            rel = self._rel_eval(i, env)
            if rel is not None:
                r = rel
            elif (a is not None and a[0] == "ptr") or (b is not None and b[0] == "ptr"):
                r = self._ptr_cmp(i.pred, a, b)
            else:
                r = icmp_eval(i.pred, a, b)
            if r == {True}:
                return const(1, 1)
            if r == {False}:
                return const(0, 1)
            return full(1) if r else mk(1, [])
        if op == "fcmp":
            return self._fcmp(i, ev)
        if w is None:
            if op == "select":
                c = ev(i.ops[0])
                s = singleton(c)
                if s == 1:
                    return ev(i.ops[1])
                if s == 0:
                    return ev(i.ops[2])
                return union(ev(i.ops[1]), ev(i.ops[2]))
            if op == "call" and i.callee and i.callee.startswith("llvm.fabs"):
                a = ev(i.ops[0])
                if a is not None and a[0] == "fp":
                    return ("fp", frozenset("pinf" if c == "ninf" else c for c in a[1]))
            if op in ("fadd", "fsub", "fmul") and len(i.ops) == 2:
                # a sum, difference or product with an infinite or NaN operand is never finite (inf + x, inf * x are inf or NaN for every x):
                # without this, `isfinite(a + b)` explored with b = +inf looked passable "for some a", which no a achieves
                for o in i.ops:
                    a = ev(o)
                    if a is not None and a[0] == "fp" and a[1] and "fin" not in a[1]:
                        return ("fp", frozenset(("pinf", "ninf", "nan")))
            if op == "fneg":
                a = ev(i.ops[0])
                if a is not None and a[0] == "fp":
                    return ("fp", frozenset({"pinf": "ninf", "ninf": "pinf"}.get(c, c) for c in a[1]))
            return TOP
        if op == "select":
            c = ev(i.ops[0])
            s = singleton(c)
            if s == 1:
                return ev(i.ops[1])
            if s == 0:
                return ev(i.ops[2])
            return union(ev(i.ops[1]), ev(i.ops[2]))
        if op in ("zext", "sext", "trunc"):
            a = ev(i.ops[0])
            if a is None or a[0] != "int":
                if op == "zext":
                    sw = int_width(self._optype(i.ops[0]))
                    if sw:
                        return mk(w, [(0, (1 << sw) - 1)])
                return TOP
            if is_empty(a):
                return mk(w, [])
            if op == "zext":
                return mk(w, a[2])
            if op == "sext":
                return from_signed_ivs(w, to_signed_ivs(a))
            m = (1 << w) - 1
            out = []
            for lo, hi in a[2]:
                if hi - lo >= m:
                    return full(w)
                l2, h2 = lo & m, hi & m
                if l2 <= h2:
                    out.append((l2, h2))
                else:
                    out.append((l2, m))
                    out.append((0, h2))
            return mk(w, out)
        a, b = ev(i.ops[0]), ev(i.ops[1]) if len(i.ops) > 1 else None
        ai = a if a is not None and a[0] == "int" else None
        bi = b if b is not None and b[0] == "int" else None
        if (ai is not None and is_empty(ai)) or (bi is not None and is_empty(bi)):
            return mk(w, [])
        m = (1 << w) - 1
        sa, sb = singleton(ai), singleton(bi)
        if sa is not None and sb is not None:
            return self._fold(op, sa, sb, w)
        if op == "and":
            if w == 1:
                if sa == 0 or sb == 0:
                    return const(0, 1)
                if sa == 1:
                    return bi or full(1)
                if sb == 1:
                    return ai or full(1)
                return full(1)
            for x, cv in ((ai, sb), (bi, sa)):
                if cv is not None and x is not None and count(x) <= 128:
                    return mk(w, [(v & cv, v & cv) for lo, hi in x[2] for v in range(lo, hi + 1)])
            for x, cv in ((ai, sb), (bi, sa)):
                if cv is not None and x is not None and cv:
                    # contiguous mask [l,h): exact per interval when the interval stays inside one 2^h block
                    l = (cv & -cv).bit_length() - 1
                    nn = cv >> l
                    if nn & (nn + 1) == 0 and len(x[2]) <= 1024:
                        h = l + nn.bit_length()
                        outs = []
                        okk = True
                        for lo, hi in x[2]:
                            if (lo >> h) != (hi >> h):
                                okk = False
                                break
                            a2, b2 = lo & ((1 << h) - 1), hi & ((1 << h) - 1)
                            outs.append(((a2 >> l) << l, (b2 >> l) << l))
                        if okk:
                            return mk(w, outs)
            for x, cv in ((ai, sb), (bi, sa)):
                if cv is not None:
                    inv = (~cv) & m
                    if x is not None and cv and (inv & (inv + 1)) == 0:
                        # high mask: zero iff x <= inv
                        if umax(x) <= inv:
                            return const(0, w)
                        if umin(x) > inv:
                            return mk(w, [(inv + 1, min(cv, umax(x)))])
                    hi = cv
                    if x is not None and (cv & (cv + 1)) == 0 and umax(x) <= cv:
                        return x
                    if x is not None:
                        hi = min(cv, umax(x))
                    return mk(w, [(0, hi)])
            if ai is not None or bi is not None:
                return mk(w, [(0, min(umax(ai) if ai else m, umax(bi) if bi else m))])
            return TOP
        if op == "or":
            if w == 1:
                if sa == 1 or sb == 1:
                    return const(1, 1)
                if sa == 0:
                    return bi or full(1)
                if sb == 0:
                    return ai or full(1)
                return full(1)
            if ai is not None and bi is not None:
                hb = max(umax(ai), umax(bi)).bit_length()
                return mk(w, [(max(umin(ai), umin(bi)), (1 << hb) - 1)])
            return TOP
        if op == "xor":
            if w == 1:
                if sb == 1 and ai is not None:
                    return mk(1, [(1 - hi, 1 - lo) for lo, hi in ai[2]])
                if sa == 1 and bi is not None:
                    return mk(1, [(1 - hi, 1 - lo) for lo, hi in bi[2]])
            return TOP if w != 1 else full(1)
        if op == "lshr":
            if sb is not None and sb < w:
                if ai is None:
                    return mk(w, [(0, m >> sb)])
                return mk(w, [(lo >> sb, hi >> sb) for lo, hi in ai[2]])
            return TOP
        if op == "shl":
            if sb is not None and ai is not None and sb < w and (umax(ai) << sb) <= m:
                return mk(w, [(lo << sb, hi << sb) for lo, hi in ai[2]])
            return TOP
        if op in ("add", "sub"):
            if ai is None or bi is None:
                return TOP
            if op == "add":
                lo, hi = umin(ai) + umin(bi), umax(ai) + umax(bi)
                # prefer signed reasoning when both fit
                ssa_, ssb_ = to_signed_ivs(ai), to_signed_ivs(bi)
                slo, shi = ssa_[0][0] + ssb_[0][0], ssa_[-1][1] + ssb_[-1][1]
            else:
                ssa_, ssb_ = to_signed_ivs(ai), to_signed_ivs(bi)
                slo, shi = ssa_[0][0] - ssb_[-1][1], ssa_[-1][1] - ssb_[0][0]
                lo, hi = umin(ai) - umax(bi), umax(ai) - umin(bi)
            half = 1 << (w - 1)
            if -half <= slo and shi < half:
                return from_signed_ivs(w, [(slo, shi)])
            if 0 <= lo and hi <= m:
                return mk(w, [(lo, hi)])
            return full(w)
        if op == "mul":
            if ai is None or bi is None:
                return TOP
            ssa_, ssb_ = to_signed_ivs(ai), to_signed_ivs(bi)
            c = [ssa_[0][0] * ssb_[0][0], ssa_[0][0] * ssb_[-1][1], ssa_[-1][1] * ssb_[0][0], ssa_[-1][1] * ssb_[-1][1]]
            half = 1 << (w - 1)
            if -half <= min(c) and max(c) < half:
                return from_signed_ivs(w, [(min(c), max(c))])
            return full(w)
        if op == "urem":
            if sb:
                if ai is not None and umax(ai) < sb:
                    return ai
                return mk(w, [(0, sb - 1)])
            if bi is not None and umin(bi) > 0:
                return mk(w, [(0, umax(bi) - 1)])
            return TOP
        if op == "srem":
            if sb is not None:
                sbs = sb - (1 << w) if sb >> (w - 1) else sb
                if sbs != 0:
                    n = abs(sbs)
                    if ai is not None and to_signed_ivs(ai)[0][0] >= 0:
                        return mk(w, [(0, min(n - 1, umax(ai)))])
                    return from_signed_ivs(w, [(-(n - 1), n - 1)])
            return TOP
        if op == "udiv":
            if sb and ai is not None:
                return mk(w, [(lo // sb, hi // sb) for lo, hi in ai[2]])
            return TOP
        if op == "sdiv":
            if sb is not None and ai is not None:
                sbs = sb - (1 << w) if sb >> (w - 1) else sb
                s = to_signed_ivs(ai)
                if sbs > 0:
                    q = lambda x: -((-x) // sbs) if x < 0 else x // sbs
                    return from_signed_ivs(w, [(q(s[0][0]), q(s[-1][1]))])
            return TOP
        if op == "ashr":
            if sb is not None and ai is not None and sb < w:
                s = to_signed_ivs(ai)
                return from_signed_ivs(w, [(s[0][0] >> sb, s[-1][1] >> sb)])
            return TOP
        if op == "call" and i.callee and i.callee.startswith("llvm.abs"):
            if ai is not None:
                s = to_signed_ivs(ai)
                lo, hi = s[0][0], s[-1][1]
                if lo >= 0:
                    return ai
                return from_signed_ivs(w, [(0 if hi >= 0 else -hi, max(-lo, hi))]) if -lo < (1 << (w - 1)) else TOP
            return TOP
        return TOP

    def _fold(self, op, a, b, w):
        m = (1 << w) - 1
        sg = lambda x: x - (1 << w) if x >> (w - 1) else x
        try:
            if op == "and": r = a & b
            elif op == "or": r = a | b
            elif op == "xor": r = a ^ b
            elif op == "add": r = a + b
            elif op == "sub": r = a - b
            elif op == "mul": r = a * b
            elif op == "shl": r = a << b if b < w else 0
            elif op == "lshr": r = a >> b if b < w else 0
            elif op == "ashr": r = sg(a) >> b if b < w else (-1 if sg(a) < 0 else 0)
            elif op == "urem": r = a % b
            elif op == "udiv": r = a // b
            elif op == "srem":
                x, y = sg(a), sg(b)
                r = abs(x) % abs(y)
                r = -r if x < 0 else r
            elif op == "sdiv":
                x, y = sg(a), sg(b)
                r = abs(x) // abs(y)
                r = -r if (x < 0) != (y < 0) else r
            else:
                return TOP
        except ZeroDivisionError:
            return TOP
        return const(r & m, w)

    def _optype(self, o):
        if o[0] == "i":
            return self.f.insts[o[1]].type
        if o[0] == "a":
            return self.f.args[o[1]]["type"]
        if o[0] == "c":
            return "i%d" % o[2]
        return ""

    def _ptr_cmp(self, pred, a, b):
        if pred not in ("eq", "ne"):
            return {True, False}
        x = None
        if b is not None and b[0] == "ptr" and b[2] == "null" and a is not None and a[0] == "ptr":
            x = a
        elif a is not None and a[0] == "ptr" and a[2] == "null" and b is not None and b[0] == "ptr":
            x = b
        if x is None:
            return {True, False}
        if x[2] == "null":
            r = {True}
        elif x[2] == "nonnull":
            r = {False}
        else:
            r = {True, False}
        return r if pred == "eq" else {not t for t in r}

    def _fcmp(self, i, ev):
        a, b = ev(i.ops[0]), ev(i.ops[1])
        # a NaN operand decides every comparison: ordered predicates are false, unordered ones true
        for x in (a, b):
            if x is not None and x[0] == "fp" and x[1] == frozenset(("nan",)):
                p = i.pred
                if p == "ord":
                    return const(0, 1)
                if p == "uno":
                    return const(1, 1)
                if p in ("true", "false"):
                    return const(1 if p == "true" else 0, 1)
                return const(1 if p[0] == "u" else 0, 1)
        if a is None or a[0] != "fp" or b is None or b[0] != "fp" or len(b[1]) != 1 or next(iter(b[1])) not in ("pinf", "ninf"):
            return full(1)
        sign = 1 if "pinf" in b[1] else -1
        res = set()
        for c in a[1]:
            res.add(bool(_fcmp_class(i.pred, c, sign)))
        if res == {True}:
            return const(1, 1)
        if res == {False}:
            return const(0, 1)
        return full(1) if res else mk(1, [])

    # ---------------- relations between designated pairs
    def _pair(self, i):
        a, b = i.ops[0], i.ops[1]
        if a[0] in ("i", "a") and b[0] in ("i", "a"):
            ka, kb = (a[0], a[1]), (b[0], b[1])
            if (ka, kb) in self.pairs:
                return ka, kb, False
            if (kb, ka) in self.pairs:
                return kb, ka, True
        return None

    def _rel_eval(self, i, env):
        p = self._pair(i)
        if p is None:
            return None
        ka, kb, swapped = p
        rel = env.get(("rel", ka, kb))
        if rel is None:
            return None
        pred = _PRED_SWAP[i.pred] if swapped else i.pred
        if pred[0] == "u" and pred not in ("eq", "ne"):
            return None
        out = set()
        for r in rel:
            out.add({"eq": r == "=", "ne": r != "=", "slt": r == "<", "sle": r in "<=", "sgt": r == ">", "sge": r in ">="}[pred])
        return out

    def rel_of(self, env, oa, ob, _depth=0):
        """signed relation subset of '<=>' between two operands: from a recorded fact, identity, or their ranges; None if unknown"""
        oa, ob = list(oa), list(ob)
        if oa[0] in ("i", "a") and ob[0] in ("i", "a"):
            ka, kb = (oa[0], oa[1]), (ob[0], ob[1])
            if ka == kb:
                return frozenset("=")
            r = env.get(("rel", ka, kb))
            if r is not None:
                return r
            r = env.get(("rel", kb, ka))
            if r is not None:
                return frozenset({"<": ">", ">": "<", "=": "="}[c] for c in r)
        # a select whose condition is decided on this path is a copy of the chosen arm
        for x, y, flip in ((oa, ob, False), (ob, oa, True)):
            if x[0] == "i" and _depth < 4:
                d = self.f.insts[x[1]]
                if d.op == "select" and d.type != "i1":
                    c = singleton(self.eval(d.ops[0], env))
                    if c is not None:
                        r = self.rel_of(env, d.ops[1] if c else d.ops[2], y, _depth + 1)
                        if r is None:
                            return None
                        return frozenset({"<": ">", ">": "<", "=": "="}[ch] for ch in r) if flip else r
        a, b = self.eval(oa, env), self.eval(ob, env)
        if a is None or b is None or a[0] != "int" or b[0] != "int":
            return None
        out = set()
        if True in icmp_eval("slt", a, b):
            out.add("<")
        if True in icmp_eval("eq", a, b):
            out.add("=")
        if True in icmp_eval("sgt", a, b):
            out.add(">")
        return frozenset(out) if len(out) < 3 else None

    # ---------------- refinement
    def refine(self, o, truth, env):
        """returns list of environments (disjunction) in which value o (i1) has the given truth; [] if impossible"""
        cur = self.eval(o, env)
        s = singleton(cur)
        if s is not None:
            return [env] if bool(s) == truth else []
        if is_empty(cur):
            return []
        if o[0] != "i":
            if o[0] == "a":
                e = dict(env)
                e[("a", o[1])] = const(1 if truth else 0, 1)
                return [e]
            return [env]
        i = self.f.insts[o[1]]
        key = ("i", i.id)
        if i.op == "xor" and i.type == "i1":
            for k in (0, 1):
                if i.ops[1 - k][0] == "c" and i.ops[1 - k][1] == 1:
                    return self.refine(i.ops[k], not truth, env)
        if i.op in ("and", "or") and i.type == "i1":
            conj = (i.op == "and") == truth     # and-true / or-false: both operands forced
            if conj:
                out = []
                for e1 in self.refine(i.ops[0], truth, env):
                    out.extend(self.refine(i.ops[1], truth, e1))
                return out
            # disjunction: (a == truth) or (a == !truth and b == truth)
            out = list(self.refine(i.ops[0], truth, env))
            for e1 in self.refine(i.ops[0], not truth, env):
                out.extend(self.refine(i.ops[1], truth, e1))
            return out
        if i.op == "select" and i.type == "i1":
            out = []
            for e1 in self.refine(i.ops[0], True, env):
                out.extend(self.refine(i.ops[1], truth, e1))
            for e1 in self.refine(i.ops[0], False, env):
                out.extend(self.refine(i.ops[2], truth, e1))
            return out
        if i.op == "icmp":
            pred = i.pred if truth else _PRED_NEG[i.pred]
            e = dict(env)
            p = self._pair(i)
            if p is not None:
                ka, kb, swapped = p
                pp = _PRED_SWAP[pred] if swapped else pred
                if pp in ("ult", "ule", "ugt", "uge"):
                    # an unsigned bound that is known non-negative implies the signed relation:  a <u b, b >= 0  =>  0 <= a <s b
                    hi_key = kb if pp in ("ult", "ule") else ka
                    hv = self.eval(list(hi_key), env)
                    w_ = int_width(self._optype(list(hi_key)))
                    if hv is not None and hv[0] == "int" and w_ and not is_empty(hv) and umax(hv) < (1 << (w_ - 1)):
                        pp = "s" + pp[1:]
                allowed = {"eq": "=", "ne": "<>", "slt": "<", "sle": "<=", "sgt": ">", "sge": ">="}.get(pp)
                if allowed is not None:
                    old = env.get(("rel", ka, kb), frozenset("<=>"))
                    new = frozenset(c for c in old if c in allowed)
                    if not new:
                        return []
                    e[("rel", ka, kb)] = new
            a, b = self.eval(i.ops[0], env), self.eval(i.ops[1], env)
            if (a is not None and a[0] == "ptr") or (b is not None and b[0] == "ptr"):
                for x, y, xo in ((a, b, i.ops[0]), (b, a, i.ops[1])):
                    if y is not None and y[0] == "ptr" and y[2] == "null" and xo[0] in ("i", "a"):
                        want_null = (pred == "eq")
                        base = x if x is not None else ("ptr", None, "maybe")
                        if base[2] != "maybe" and (base[2] == "null") != want_null:
                            return []
                        self._set_ptr(xo, ("ptr", base[1], "null" if want_null else "nonnull"), e)
                return [e]
            w = int_width(self._optype(i.ops[0])) or int_width(self._optype(i.ops[1]))
            if w is None:
                return [e]
            for xo, x, y, pr in ((i.ops[0], a, b, pred), (i.ops[1], b, a, _PRED_SWAP[pred])):
                # refine only against constants: every bound then comes from the program text,
                # which keeps the set of abstract values finite (termination without widening)
                if xo[0] in ("i", "a") and singleton(y) is not None:
                    nx = icmp_refine(pr, x, y, w)
                    if is_empty(nx):
                        return []
                    if nx != (x if x is not None else full(w)):
                        self._set_int(xo, nx, e)
            e[key] = const(1 if truth else 0, 1)
            if any(is_empty(v) for v in e.values() if isinstance(v, tuple)):
                return []
            return [e]
        if i.op == "fcmp":
            a = self.eval(i.ops[0], env)
            b = self.eval(i.ops[1], env)
            e = dict(env)
            if b is not None and b[0] == "fp" and len(b[1]) == 1 and next(iter(b[1])) in ("pinf", "ninf") and i.ops[0][0] == "i":
                sign = 1 if "pinf" in b[1] else -1
                cur_cls = a[1] if a is not None and a[0] == "fp" else FP_ALL
                keep = frozenset(c for c in cur_cls if bool(_fcmp_class(i.pred, c, sign)) == truth)
                if not keep:
                    return []
                self._set_fp(i.ops[0], ("fp", keep), e)
            e[key] = const(1 if truth else 0, 1)
            return [e]
        e = dict(env)
        e[key] = const(1 if truth else 0, 1)
        return [e]

    def _set_int(self, o, av, e):
        key = (o[0], o[1])
        e[key] = av
        if self.plugin is not None and hasattr(self.plugin, "on_refine_int"):
            self.plugin.on_refine_int(self, key, av, e)
        if o[0] != "i":
            return
        d = self.f.insts[o[1]]
        # push the refinement through value-preserving casts and constant offsets
        if d.op == "zext" and d.ops[0][0] in ("i", "a"):
            sw = int_width(self._optype(d.ops[0]))
            if sw and umax(av) < (1 << sw):
                self._set_int(d.ops[0], inter(self.eval(d.ops[0], e) if (d.ops[0][0], d.ops[0][1]) in e else None, mk(sw, av[2])), e)
        elif d.op == "sext" and d.ops[0][0] in ("i", "a"):
            sw = int_width(self._optype(d.ops[0]))
            s = to_signed_ivs(av)
            if sw and s and -(1 << (sw - 1)) <= s[0][0] and s[-1][1] < (1 << (sw - 1)):
                self._set_int(d.ops[0], from_signed_ivs(sw, s), e)
        elif d.op == "and" and d.ops[1][0] == "c" and d.ops[0][0] in ("i", "a"):
            # x & C with C = all ones above bit n:  result == 0  <=>  x < 2^n ;  result != 0  <=>  x >= 2^n
            w = av[1]
            C = d.ops[1][1]
            inv = (~C) & ((1 << w) - 1)
            cur0 = self.eval(d.ops[0], e)
            if cur0 is not None and cur0[0] == "int" and count(cur0) <= 128:
                keep = [(v, v) for lo, hi in cur0[2] for v in range(lo, hi + 1) if not is_empty(inter(const(v & C, w), av))]
                self._set_int(d.ops[0], mk(w, keep), e)
            elif C and (inv & (inv + 1)) == 0:
                cur = self.eval(d.ops[0], e)
                if cur is None:
                    cur = full(w)
                if singleton(av) == 0:
                    self._set_int(d.ops[0], inter(cur, mk(w, [(0, inv)])), e)
                elif is_empty(inter(av, const(0, w))):
                    self._set_int(d.ops[0], inter(cur, mk(w, [(inv + 1, (1 << w) - 1)])), e)
        elif d.op == "add" and d.ops[1][0] == "c" and d.ops[0][0] in ("i", "a") and (d.d.get("nsw") or d.d.get("nuw")):
            w = av[1]
            c = ir.cint_signed(d.ops[1])
            s = to_signed_ivs(av)
            if d.d.get("nsw"):
                self._set_int(d.ops[0], inter(self.eval(d.ops[0], e), from_signed_ivs(w, [(a - c, b - c) for a, b in s])), e)
        elif d.op == "select" and d.ops[0][0] == "i" and self._minmax(d) is not None and getattr(self, "_sel_depth", 0) < 6:
            # max(a, b) <= U  =>  a <= U and b <= U ;  min(a, b) >= L  =>  a >= L and b >= L
            kind = self._minmax(d)
            w = av[1]
            sv = to_signed_ivs(av)
            half = 1 << (w - 1)
            bound = from_signed_ivs(w, [(-half, sv[-1][1])]) if kind == "max" else from_signed_ivs(w, [(sv[0][0], half - 1)])
            self._sel_depth = getattr(self, "_sel_depth", 0) + 1
            try:
                for arm in d.ops[1:]:
                    if arm[0] in ("i", "a"):
                        cur = self.eval(arm, e)
                        nv = inter(cur, bound) if cur is not None and cur[0] == "int" else bound
                        if nv != cur and not is_empty(nv):
                            self._set_int(arm, nv, e)
            finally:
                self._sel_depth -= 1
        elif d.op == "select" and d.ops[0][0] == "i" and getattr(self, "_sel_depth", 0) < 6:
            # the value of a select excludes one arm entirely: the condition is decided (cleanup-slot selects of constants)
            a1, a2 = self.eval(d.ops[1], e), self.eval(d.ops[2], e)
            if a1 is not None and a2 is not None and a1[0] == "int" and a2[0] == "int":
                can1, can2 = not is_empty(inter(a1, av)), not is_empty(inter(a2, av))
                if can1 != can2:
                    self._sel_depth = getattr(self, "_sel_depth", 0) + 1
                    try:
                        envs = self.refine(d.ops[0], can1, e)
                    finally:
                        self._sel_depth -= 1
                    if len(envs) != 1:
                        # a disjunction: at least the truth of the condition itself is known
                        if envs:
                            e2_ = dict(e)
                            e2_[("i", d.ops[0][1])] = const(1 if can1 else 0, 1)
                            envs = [e2_]
                    if len(envs) == 1:
                        e.update(envs[0])
                        arm = d.ops[1] if can1 else d.ops[2]
                        if arm[0] in ("i", "a"):
                            cur = self.eval(arm, e)
                            nv = inter(cur, av) if cur is not None and cur[0] == "int" else av
                            if not is_empty(nv) and nv != cur:
                                self._set_int(arm, nv, e)
        elif d.op in ("sdiv", "udiv") and d.ops[1][0] == "c" and d.ops[0][0] in ("i", "a"):
            # x / c in [a, b]  (truncating division, c > 0)  =>  x in [a*c - (c-1 if a <= 0), b*c + (c-1 if b >= 0)]
            w = av[1]
            c = ir.cint_signed(d.ops[1]) if d.op == "sdiv" else d.ops[1][1]
            if c > 0:
                if d.op == "sdiv":
                    s = to_signed_ivs(av)
                    ivs = [(a * c - (c - 1 if a <= 0 else 0), b * c + (c - 1 if b >= 0 else 0)) for a, b in s]
                    lo_, hi_ = -(1 << (w - 1)), (1 << (w - 1)) - 1
                    nv = from_signed_ivs(w, [(max(a, lo_), min(b, hi_)) for a, b in ivs if max(a, lo_) <= min(b, hi_)])
                else:
                    nv = mk(w, [(a * c, min(b * c + c - 1, (1 << w) - 1)) for a, b in av[2] if a * c < (1 << w)])
                cur = self.eval(d.ops[0], e)
                self._set_int(d.ops[0], inter(cur, nv) if cur is not None and cur[0] == "int" else nv, e)
        elif d.op == "add" and d.ops[1][0] == "c" and d.ops[0][0] in ("i", "a") and len(av[2]) <= 8:
            # wrapping add (the range-check idiom  x + c <u k): the operand is the result shifted back modulo 2^w, exactly
            w = av[1]
            M = 1 << w
            c = d.ops[1][1] % M
            ivs = []
            for a, b in av[2]:
                a2, b2 = (a - c) % M, (b - c) % M
                ivs += [(a2, b2)] if a2 <= b2 else [(a2, M - 1), (0, b2)]
            cur = self.eval(d.ops[0], e)
            nv = mk(w, ivs)
            self._set_int(d.ops[0], inter(cur, nv) if cur is not None and cur[0] == "int" else nv, e)

    def _minmax(self, d):
        """'max' / 'min' when select d is  (a > b ? a : b)  resp.  (a < b ? a : b)  (signed), else None"""
        c = self.f.insts[d.ops[0][1]]
        if c.op != "icmp" or c.pred not in ("sgt", "sge", "slt", "sle"):
            return None
        x, y = c.ops
        a, b = d.ops[1], d.ops[2]
        if list(x) == list(a) and list(y) == list(b):
            return "max" if c.pred in ("sgt", "sge") else "min"
        if list(x) == list(b) and list(y) == list(a):
            return "min" if c.pred in ("sgt", "sge") else "max"
        return None

    def _set_ptr(self, o, av, e):
        e[(o[0], o[1])] = av
        if o[0] == "i":
            d = self.f.insts[o[1]]
            if d.op in ("bitcast",) and d.ops[0][0] in ("i", "a"):
                self._set_ptr(d.ops[0], av, e)
        if self.plugin is not None and hasattr(self.plugin, "on_null_refine"):
            self.plugin.on_null_refine(self, o, av, e)

    def _set_fp(self, o, av, e):
        e[(o[0], o[1])] = av
        if o[0] == "i":
            d = self.f.insts[o[1]]
            if d.op == "call" and d.callee and d.callee.startswith("llvm.fabs") and d.ops[0][0] in ("i", "a"):
                cls = set(av[1])
                if "pinf" in cls:
                    cls.add("ninf")
                cur = self.eval(d.ops[0], e)
                if cur is not None and cur[0] == "fp":
                    cls &= set(cur[1])
                self._set_fp(d.ops[0], ("fp", frozenset(cls)), e)

    def interpretable(self, o, env, depth=0):
        """is the i1 value a tree of and/or/xor/select over compares the refinement understands exactly?"""
        if o[0] == "c":
            return True
        if o[0] != "i" or depth > 20:
            return False
        i = self.f.insts[o[1]]
        if ("i", i.id) in env and singleton(env[("i", i.id)]) is not None:
            return True
        if i.type != "i1":
            return False
        if i.op in ("and", "or", "xor"):
            return all(self.interpretable(x, env, depth + 1) for x in i.ops)
        if i.op == "select":
            return all(self.interpretable(x, env, depth + 1) for x in i.ops)
        if i.op == "icmp":
            a, b = self.eval(i.ops[0], env), self.eval(i.ops[1], env)
            if self._pair(i) is not None:
                return True
            return singleton(a) is not None or singleton(b) is not None or (a is not None and a[0] == "ptr") or (b is not None and b[0] == "ptr")
        if i.op == "fcmp":
            b = self.eval(i.ops[1], env)
            return b is not None and b[0] == "fp" and len(b[1]) == 1
        if i.op == "phi":
            return False
        return False

    # ---------------- exploration
    def tainted(self, o, env):
        """does the value of o on this path derive from an assumed root (through evaluable instructions and the phi copies taken)?"""
        if o[0] not in ("i", "a"):
            return False
        roots = set(self.assume) | {("i", k) for k in self.assume_def}
        for k in self.info.closure((o[0], o[1])):
            if k in roots or ("t", k) in env:
                return True
        return False

    def depends_on_assumption(self, o, through_phis=False):
        roots = set(self.assume) | {("i", k) for k in self.assume_def} | {("i", k) for k in self.assume_once}
        if o[0] not in ("i", "a"):
            return False
        cl = self.info.closure_phi((o[0], o[1])) if through_phis else self.info.closure((o[0], o[1]))
        return bool(cl & roots)

    def _dominating_facts(self, env):
        """exploration that starts in the middle of a function: the branch conditions on the single-predecessor chain above the start
        block hold there (SSA values of the same iteration), so they are refined into the initial environment"""
        f = self.f
        b = self.start_block
        for _ in range(16):
            preds = f.blocks[b].preds
            if len(preds) != 1:
                break
            p = preds[0]
            t = f.blocks[p].term
            if t.op == "br" and len(t.ops) == 3:
                tb, fb = t.ops[2][1], t.ops[1][1]
                if tb != fb and b in (tb, fb):
                    try:
                        envs = self.refine(t.ops[0], b == tb, env)
                    except AnalysisBroken:
                        envs = []
                    if len(envs) == 1:
                        env = envs[0]
            if p == self.start_block or p == 0 and False:
                break
            b = p
        return env

    def run(self):
        f = self.f
        env0 = dict(self.assume)
        if self.start_block != 0 and getattr(self, "seed_dominating", False):
            env0 = self._dominating_facts(env0)
        work = [(self.start_block, None, State(env0))]
        seen = {}
        per_block = {}
        block_envs = {}
        merged = {}
        while work and not self.stop:
            bidx, pred, st = work.pop()
            self.steps += 1
            if self.steps > self.MAXSTEPS:
                raise AnalysisBroken("exploration of %s exceeded %d steps" % (f.name, self.MAXSTEPS))
            b = f.blocks[bidx]
            env = st.env
            # phi assignment on the incoming edge (parallel copy)
            if pred is not None:
                newv = {}
                for p in b.phis():
                    k = ("i", p.id)
                    if p.id in self.cyclic:
                        # entry edge of the cycle (the incoming value is not computed inside it): the value is exactly the incoming one;
                        # only values that come round the cycle are unknown
                        ent = None
                        for o, pb in zip(p.ops, p.d["inc"]):
                            if pb == pred:
                                ent = o
                                break
                        if ent is not None and not (ent[0] == "i" and self.info.scc_of.get(ent[1]) == self.info.scc_of.get(p.id)) and p.id not in self.mono:
                            newv[k] = self.eval(ent, env)
                            continue
                        newv[k] = TOP
                        sg = self.mono.get(p.id)
                        if sg:
                            w = int(p.type[1:])
                            half = 1 << (w - 1)
                            for o, pb in zip(p.ops, p.d["inc"]):
                                if pb != pred:
                                    continue
                                if o[0] == "i" and self.f.insts[o[1]].op == "add" and self.f.insts[o[1]].ops[0] == ["i", p.id]:
                                    cur = env.get(k)            # back edge: the entry bound persists
                                    if p.id in self.info.mono_dyn:
                                        c = ir.cint_signed(self.f.insts[o[1]].ops[1])
                                        if cur is None or cur[0] != "int" or is_empty(cur) or umax(cur) + c >= half:
                                            cur = None          # the increment may wrap: no bound
                                else:
                                    cur = self.eval(o, env)     # entry edge: the counter has exactly its initial value (the first test of the loop is decided)
                                    if cur is not None and cur[0] == "int" and not is_empty(cur):
                                        newv[k] = cur
                                        break
                                if cur is not None and cur[0] == "int" and not is_empty(cur):
                                    sv = to_signed_ivs(cur)
                                    newv[k] = from_signed_ivs(w, [(sv[0][0], half - 1)]) if sg > 0 else from_signed_ivs(w, [(-half, sv[-1][1])])
                                break
                        continue
                    for o, pb in zip(p.ops, p.d["inc"]):
                        if pb == pred:
                            newv[k] = self.eval(o, env)
                            break
                old_env = env
                env = dict(env)
                for k, v in newv.items():
                    if v is None or is_full(v):
                        env.pop(k, None)
                    else:
                        env[k] = v
                if self.track_taint:
                    for p in b.phis():
                        k = ("i", p.id)
                        for o, pb in zip(p.ops, p.d["inc"]):
                            if pb == pred:
                                if self.tainted(o, old_env):
                                    env[("t", k)] = True
                                else:
                                    env.pop(("t", k), None)
                                break
                # relations of designated pairs follow the copy made by the phi
                if self.pairs:
                    phimap = {}
                    for p in b.phis():
                        for o, pb in zip(p.ops, p.d["inc"]):
                            if pb == pred:
                                phimap[("i", p.id)] = o
                                break
                    for (ka, kb) in self.pairs:
                        if ka in phimap or kb in phimap:
                            oa = phimap.get(ka, list(ka))
                            ob = phimap.get(kb, list(kb))
                            r = self.rel_of(old_env, oa, ob)
                            if r is None:
                                env.pop(("rel", ka, kb), None)
                            else:
                                env[("rel", ka, kb)] = r
            # prune by liveness (plugin keys are kept)
            live = self.live[bidx]
            env = {k: v for k, v in env.items() if (k[0] not in ("i", "a", "t")) or k in live or (k[0] == "i" and k[1] in self.assume_def)
                   or (k[0] == "t" and k[1] in live)}
            st = State(env, st.approx, st.trail + (bidx,) if self.keep_trail else ())
            sk = (bidx, st.key())
            if sk in seen:
                continue
            seen[sk] = True
            cnt = per_block.get(bidx, 0) + 1
            per_block[bidx] = cnt
            block_envs.setdefault(bidx, []).append(st.env)
            if cnt > self.CAP:
                mg = merged.get(bidx)
                if mg is not None and _subsumes(mg, st.env):
                    continue
                if mg is None:
                    mg = block_envs[bidx][0]
                    for e2 in block_envs[bidx][1:]:
                        mg = _join(mg, e2, b, f)
                else:
                    mg = _join(mg, st.env, b, f)
                merged[bidx] = mg
                self.merged = True
                st = State(dict(mg), True, st.trail)
            self.visited_blocks.add(bidx)
            states = [st]
            for i in b.insts:
                if i.op == "phi":
                    continue
                nxt = []
                for s in states:
                    k = ("i", i.id)
                    if i.id in self.assume_once:
                        first, later = self.assume_once[i.id]
                        if not s.env.get(("once", i.id)):
                            s.env[k] = first
                            s.env[("once", i.id)] = True
                        elif later:
                            # a later execution of the same instruction: one state per value it may produce
                            for av in later[1:]:
                                s2 = State(dict(s.env), s.approx, s.trail)
                                s2.env[k] = av
                                nxt.append(s2)
                            s.env[k] = later[0]
                        elif k in s.env:
                            del s.env[k]
                    elif i.id in self.assume_def:
                        s.env[k] = self.assume_def[i.id]
                    elif k in s.env and i is not b.term:
                        # re-executing the definition invalidates an old refinement
                        del s.env[k]
                    if self.pairs and k in self.pair_keys:
                        for rk in [x for x in s.env if x[0] == "rel" and (x[1] == k or x[2] == k) and x not in self.sticky]:
                            del s.env[rk]
                    if self.plugin is not None and i is not b.term:
                        r = self.plugin.on_inst(self, s, i)
                        if r is not None:
                            nxt.extend(r)
                            continue
                    nxt.append(s)
                states = nxt
            t = b.term
            for s in states:
                self._terminator(b, t, s, work)
        return self

    def _terminator(self, b, t, s, work):
        if t.op == "ret":
            av = self.eval(t.ops[0], s.env) if t.ops else None
            if self.plugin is not None and hasattr(self.plugin, "on_ret"):
                self.plugin.on_ret(self, s, t, av)
            self.rets.append((s, t, av))
            return
        if t.op == "unreachable":
            return
        if t.op == "br":
            if len(t.ops) == 1:
                work.append((t.ops[0][1], b.idx, s))
                return
            tb, fb = t.ops[2][1], t.ops[1][1]
            cur = self.eval(t.ops[0], s.env)
            if singleton(cur) is None and not self.interpretable(t.ops[0], s.env):
                # the outcome depends on something the engine cannot interpret: facts derived below this point are over-approximations
                s = State(dict(s.env), True, s.trail)
                s.env[("flag", "approx")] = True
                if self.depends_on_assumption(t.ops[0], through_phis=True):
                    # ... and that something is computed from an assumed value (rules about the assumed value itself use this finer flag)
                    s.env[("flag", "approx_dep")] = True
            for truth, dest in ((True, tb), (False, fb)):
                envs = self.refine(t.ops[0], truth, s.env)
                if envs and self.eval(t.ops[0], s.env) is not None and singleton(self.eval(t.ops[0], s.env)) is None \
                        and self.depends_on_assumption(t.ops[0]):
                    self.tainted_conds.append(t)
                for e in envs:
                    work.append((dest, b.idx, State(dict(e), s.approx, s.trail)))
            return
        if t.op == "switch":
            v = self.eval(t.ops[0], s.env)
            w = int_width(self._optype(t.ops[0]))
            rest = v if v is not None else full(w)
            for cv, dest in t.d["cases"]:
                c = const(cv, w)
                if not is_empty(inter(rest if v is None else v, c)):
                    e = dict(s.env)
                    if t.ops[0][0] in ("i", "a"):
                        self._set_int(t.ops[0], c, e)
                    work.append((dest, b.idx, State(e, s.approx, s.trail)))
                rest = minus(rest, c)
            if not is_empty(rest):
                e = dict(s.env)
                if t.ops[0][0] in ("i", "a") and v is not None:
                    self._set_int(t.ops[0], rest, e)
                work.append((t.d["default"], b.idx, State(e, s.approx, s.trail)))
            return
        raise AnalysisBroken("unhandled terminator %s in %s" % (t.op, self.f.name))


def _join(e1, e2, b, f):
    out = {}
    for k, v in e1.items():
        if k[0] in ("i", "a"):
            if k in e2:
                u = union(v, e2[k])
                if u is not None and not is_full(u):
                    out[k] = u
        elif k[0] == "rel":
            # a relation fact known on both sides: the union of the admitted orderings (absent = nothing known)
            if k in e2:
                u = frozenset(v) | frozenset(e2[k])
                if len(u) < 3:
                    out[k] = u
        elif _MAY(k):
            out[k] = v          # may-facts (taint, "this state was approximated"): true on either side is true in the join
        else:
            if e2.get(k) != v:
                raise AnalysisBroken("more than %d distinct states at block %s of %s and they differ in %s (state cap)" % (Explorer.CAP, b.name, f.name, k))
            out[k] = v
    for k, v in e2.items():
        if k[0] not in ("i", "a", "rel") and k not in e1:
            if _MAY(k):
                out[k] = v
                continue
            raise AnalysisBroken("more than %d distinct states at block %s of %s and they differ in %s (state cap)" % (Explorer.CAP, b.name, f.name, k))
    return out


def _MAY(k):
    return k[0] == "t" or (k[0] == "flag" and len(k) > 1 and k[1] in ("approx", "approx_dep"))


def _subsumes(mg, env):
    for k, v in mg.items():
        if k[0] in ("i", "a"):
            if k not in env:
                return False
            e = env[k]
            if e != v:
                if v[0] == "int" and e[0] == "int":
                    if minus(e, v)[2]:
                        return False
                elif v[0] == "fp" and e[0] == "fp":
                    if not e[1] <= v[1]:
                        return False
                else:
                    return False
        elif k[0] == "rel":
            if k not in env or not frozenset(env[k]) <= frozenset(v):
                return False
        elif _MAY(k):
            continue
        elif env.get(k) != v:
            return False
    for k in env:
        if k[0] not in ("i", "a", "rel") and k not in mg:
            return False
    return True


def trail_lines(f, trail, limit=12):
    """compress a block trail into source lines for diagnostics"""
    out = []
    for bi in trail:
        b = f.blocks[bi]
        ln = next((i.line for i in b.insts if i.line), 0)
        if ln and (not out or out[-1] != ln):
            out.append(ln)
    if len(out) > limit:
        out = out[:limit // 2] + ["..."] + out[-limit // 2:]
    return out
