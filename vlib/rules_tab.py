"""R-TAB: agreement of the constant tables with each other and with the small lattice kernels (DESIGN.md 2.4).

No table is compared with a frozen copy of itself: every relation follows from the geometry (inverse maps,
symmetry of adjacency, derivability of one table from another).  Relations are asserted over live entries only.
"""
import math, subprocess, re, os
from . import tables, build, ir
from .build import AnalysisBroken

K, J, JK, I, IK, IJ = 1, 2, 3, 4, 5, 6
INVALID_BASE_CELL = 127


def norm(v):
    m = min(v)
    return [v[0] - m, v[1] - m, v[2] - m]


def add(a, b):
    return [a[0] + b[0], a[1] + b[1], a[2] + b[2]]


def lin(vecs, v):
    """apply the linear kernel with column vectors (iVec, jVec, kVec)"""
    out = [0, 0, 0]
    for c, vec in zip(v, vecs):
        out = add(out, [c * vec[0], c * vec[1], c * vec[2]])
    return out


class Tab:
    def __init__(self, ctx, m, cfg, rule="R-TAB"):
        self.ctx, self.m, self.cfg, self.rule = ctx, m, cfg, rule
        self.T = tables.Tables(m)
        self.count = {}

    def ok(self, rel, n, detail):
        self.ctx.ok(self.rule, {"relation": rel, "instances": n, "config": self.cfg}, detail)

    def bad(self, rel, key, msg, where):
        only = getattr(self, "only_keys", {}).get(rel)
        if only is not None and not any(key.startswith(p) for p in only):
            return
        self.ctx.violation(self.rule, "%s:%s" % (rel, key), msg, where, {"relation": rel, "config": self.cfg})

    def run(self, rel):
        fn = getattr(self, rel)
        try:
            fn()
        except AnalysisBroken as e:
            self.ctx.broken(self.rule, "%s: %s" % (rel, e))

    # ------------------------------------------------------------- helpers
    def unit(self):
        U = self.T.get("UNIT_VECS")
        if len(U) != 7:
            raise AnalysisBroken("UNIT_VECS does not have 7 rows")
        return U

    def digit_of(self, v):
        U = self.unit()
        n = norm(v)
        for d, u in enumerate(U):
            if u == n:
                return d
        return None

    def rot_maps(self):
        ccw, d1 = tables.switch_map(self.m, "_rotate60ccw")
        cw, d2 = tables.switch_map(self.m, "_rotate60cw")
        if d1 != "identity" or d2 != "identity":
            raise AnalysisBroken("_rotate60ccw/_rotate60cw default is not the identity")
        f1 = lambda d: ccw.get(d, d)
        f2 = lambda d: cw.get(d, d)
        return f1, f2, ccw, cw

    # ------------------------------------------------------------- T1
    def T1(self):
        """NEW_DIGIT/NEW_ADJUSTMENT tables are what the aperture-7 child lattice gives"""
        U = self.unit()
        n = 0
        nbad = 0
        for suffix, kern in (("II", "_downAp7"), ("III", "_downAp7r")):
            vecs = tables.kernel_vectors(self.m, self.T, kern)
            ND = self.T.get("NEW_DIGIT_" + suffix)
            NA = self.T.get("NEW_ADJUSTMENT_" + suffix)
            for a in range(7):
                for d in range(7):
                    n += 1
                    lhs = norm(add(U[a], U[d]))
                    # expected: the unique (adj, new) with down7(U[adj]) + U[new] == U[a] + U[d]
                    sols = [(adj, new) for adj in range(7) for new in range(7) if norm(add(lin(vecs, U[adj]), U[new])) == lhs]
                    if len(sols) != 1:
                        raise AnalysisBroken("aperture-7 decomposition of digit %d + %d is not unique under %s (%s)" % (a, d, kern, sols))
                    adj, new = sols[0]
                    if ND[a][d] != new:
                        nbad += 1
                        self.bad("T1", "NEW_DIGIT_%s[%d][%d]" % (suffix, a, d),
                                 "NEW_DIGIT_%s[%d][%d] = %d but the %s child lattice gives digit %d (moving a child with digit %d in direction %d)"
                                 % (suffix, a, d, ND[a][d], kern, new, a, d), self.T.where("NEW_DIGIT_" + suffix))
                    if NA[a][d] != adj:
                        nbad += 1
                        self.bad("T1", "NEW_ADJUSTMENT_%s[%d][%d]" % (suffix, a, d),
                                 "NEW_ADJUSTMENT_%s[%d][%d] = %d but the %s child lattice carries direction %d to the parent"
                                 % (suffix, a, d, NA[a][d], kern, adj), self.T.where("NEW_ADJUSTMENT_" + suffix))
        if not nbad:
            self.ok("T1", 2 * n, "all %d entries of NEW_DIGIT_II/III and NEW_ADJUSTMENT_II/III equal the unique decomposition U[a]+U[d] = down7(U[adj]) + U[new] with the vectors of _downAp7/_downAp7r" % (2 * n))

    # ------------------------------------------------------------- T10
    def T10(self):
        """digit rotation = coordinate rotation, inverse 6-cycles"""
        U = self.unit()
        f1, f2, ccw, cw = self.rot_maps()
        nbad = 0
        for name, mp, kern in (("_rotate60ccw", ccw, "_ijkRotate60ccw"), ("_rotate60cw", cw, "_ijkRotate60cw")):
            vecs = tables.kernel_vectors(self.m, self.T, kern)
            if sorted(mp) != [1, 2, 3, 4, 5, 6]:
                nbad += 1
                self.bad("T10", name + ":domain", "%s does not map exactly the digits 1..6 (cases %s)" % (name, sorted(mp)), self.m.fn(name).where())
                continue
            for d in range(1, 7):
                exp = self.digit_of(lin(vecs, U[d]))
                if mp[d] != exp:
                    nbad += 1
                    self.bad("T10", "%s(%d)" % (name, d), "%s(%d) = %d but %s rotates UNIT_VECS[%d] onto digit %s" % (name, d, mp[d], kern, d, exp), self.m.fn(name).where())
        for d in range(1, 7):
            if ccw.get(cw.get(d)) != d or cw.get(ccw.get(d)) != d:
                nbad += 1
                self.bad("T10", "inverse(%d)" % d, "_rotate60ccw and _rotate60cw are not mutually inverse at digit %d" % d, self.m.fn("_rotate60ccw").where())
        # 6-cycle
        d, seen = 1, []
        for _ in range(6):
            seen.append(d)
            d = ccw.get(d, d)
        if sorted(seen) != [1, 2, 3, 4, 5, 6] or d != 1:
            nbad += 1
            self.bad("T10", "cycle", "_rotate60ccw is not a single 6-cycle on the digits 1..6 (%s)" % seen, self.m.fn("_rotate60ccw").where())
        if not nbad:
            self.ok("T10", 26, "switch maps of _rotate60ccw/cw are inverse 6-cycles and agree with _ijkRotate60ccw/cw applied to UNIT_VECS")

    # ------------------------------------------------------------- T7
    def pentagons(self):
        bcd = self.T.get("baseCellData")
        return [b for b, row in enumerate(bcd) if row[1] != 0]

    def T7(self):
        """one pentagon set and one base-cell count everywhere"""
        bcd = self.T.get("baseCellData")
        nb = len(bcd)
        pent = self.pentagons()
        nbad = 0
        arr = self.T.get("isBaseCellPentagonArr", "_hasDeletedSubsequence")
        pa = [b for b, v in enumerate(arr[:nb]) if v]
        if pa != pent:
            nbad += 1
            self.bad("T7", "isBaseCellPentagonArr", "pentagon set used by isValidCell (_hasDeletedSubsequence.isBaseCellPentagonArr) = %s differs from baseCellData[].isPentagon = %s" % (pa, pent),
                     self.T.where("isBaseCellPentagonArr", "_hasDeletedSubsequence"))
        if any(arr[nb:]):
            pass  # entries 122..127 are never read (base cell test precedes)
        pdf = self.T.get("pentagonDirectionFaces")
        pp = sorted(r[0] for r in pdf)
        if pp != pent:
            nbad += 1
            self.bad("T7", "pentagonDirectionFaces", "pentagonDirectionFaces lists base cells %s, baseCellData marks %s as pentagons" % (pp, pent), self.T.where("pentagonDirectionFaces"))
        bn = self.T.get("baseCellNeighbors")
        rows127 = [b for b, r in enumerate(bn) if INVALID_BASE_CELL in r]
        if rows127 != pent:
            nbad += 1
            self.bad("T7", "baseCellNeighbors:127rows", "rows of baseCellNeighbors with a deleted neighbour (127) are %s, pentagons are %s" % (rows127, pent), self.T.where("baseCellNeighbors"))
        pc = tables.const_return(self.m, "pentagonCount")
        rc = tables.const_return(self.m, "res0CellCount")
        if pc != len(pent):
            nbad += 1
            self.bad("T7", "pentagonCount", "pentagonCount() returns %s but %d base cells are pentagons" % (pc, len(pent)), self.m.fn("pentagonCount").where())
        if rc != nb:
            nbad += 1
            self.bad("T7", "res0CellCount", "res0CellCount() returns %s but baseCellData has %d rows" % (rc, nb), self.m.fn("res0CellCount").where())
        for name in ("baseCellNeighbors", "baseCellNeighbor60CCWRots"):
            if len(self.T.get(name)) != nb:
                nbad += 1
                self.bad("T7", name + ":rows", "%s has %d rows, baseCellData has %d" % (name, len(self.T.get(name)), nb), self.T.where(name))
        if len(pdf) != len(pent):
            nbad += 1
            self.bad("T7", "pentagonDirectionFaces:rows", "pentagonDirectionFaces has %d rows for %d pentagons" % (len(pdf), len(pent)), self.T.where("pentagonDirectionFaces"))
        # (the loop bounds of getRes0Cells / getPentagons used to be compared with the table sizes here; that was a frozen-shape rule - a
        #  behaviour-preserving rewrite of getPentagons over a 12-entry table raised a false alarm - and it is superseded by R-BITPROV
        #  `enumerators`, which decides the exact contents both functions write)
        if not nbad:
            self.ok("T7", 10, "pentagon set %s and the count %d agree across baseCellData, isBaseCellPentagonArr, pentagonDirectionFaces, the 127-rows, pentagonCount and res0CellCount=%d" % (pent, len(pent), nb))

    # ------------------------------------------------------------- T3
    def T3(self):
        """base-cell adjacency is symmetric; rotations of the two directions are consistent"""
        bn = self.T.get("baseCellNeighbors")
        br = self.T.get("baseCellNeighbor60CCWRots")
        pent = set(self.pentagons())
        polar = self.polar_pentagons()
        f1, f2, ccw, cw = self.rot_maps()
        nb = len(bn)
        nbad = 0
        n = 0

        def rotn(d, r):
            for _ in range(r % 6):
                d = f1(d)
            return d
        for b in range(nb):
            if bn[b][0] != b:
                nbad += 1
                self.bad("T3", "baseCellNeighbors[%d][0]" % b, "baseCellNeighbors[%d][0] = %d, must be the cell itself" % (b, bn[b][0]), self.T.where("baseCellNeighbors"))
            if br[b][0] != 0:
                nbad += 1
                self.bad("T3", "baseCellNeighbor60CCWRots[%d][0]" % b, "rotation for the centre direction of base cell %d is %d, must be 0" % (b, br[b][0]), self.T.where("baseCellNeighbor60CCWRots"))
            nbrs = [bn[b][d] for d in range(1, 7)]
            real = [x for x in nbrs if x != INVALID_BASE_CELL]
            if len(set(real)) != len(real):
                nbad += 1
                self.bad("T3", "baseCellNeighbors[%d]:distinct" % b, "base cell %d lists a neighbour twice: %s" % (b, nbrs), self.T.where("baseCellNeighbors"))
            for d in range(1, 7):
                c = bn[b][d]
                if c == INVALID_BASE_CELL:
                    if b not in pent or d != K:
                        nbad += 1
                        self.bad("T3", "baseCellNeighbors[%d][%d]" % (b, d), "deleted neighbour (127) at base cell %d direction %d: only the K direction of a pentagon is deleted" % (b, d), self.T.where("baseCellNeighbors"))
                    if br[b][d] != -1:
                        nbad += 1
                        self.bad("T3", "baseCellNeighbor60CCWRots[%d][%d]" % (b, d), "rotation of the deleted direction must be -1, is %d" % br[b][d], self.T.where("baseCellNeighbor60CCWRots"))
                    continue
                if b in pent and d == K:
                    nbad += 1
                    self.bad("T3", "baseCellNeighbors[%d][%d]" % (b, d), "pentagon base cell %d has a neighbour %d in its deleted K direction" % (b, c), self.T.where("baseCellNeighbors"))
                    continue
                if not (0 <= c < nb):
                    nbad += 1
                    self.bad("T3", "baseCellNeighbors[%d][%d]" % (b, d), "neighbour %d out of range" % c, self.T.where("baseCellNeighbors"))
                    continue
                n += 1
                back = [e for e in range(1, 7) if bn[c][e] == b]
                if len(back) != 1:
                    nbad += 1
                    self.bad("T3", "symmetry:%d->%d" % (b, c), "base cell %d lists %d as neighbour (direction %d) but %d lists %d %d times" % (b, c, d, c, b, len(back)), self.T.where("baseCellNeighbors"))
                    continue
                e = back[0]
                r1, r2 = br[b][d], br[c][e]
                if not (0 <= r1 <= 5):
                    nbad += 1
                    self.bad("T3", "baseCellNeighbor60CCWRots[%d][%d]" % (b, d), "rotation count %d outside 0..5" % r1, self.T.where("baseCellNeighbor60CCWRots"))
                    continue
                if (b in pent) != (c in pent):
                    # hexagon <-> pentagon: the two rotation counts add to 0, or to 5 across the pentagon's missing wedge:
                    # direction IK of a non-polar pentagon, every direction but JK of a polar one
                    pd = d if b in pent else e
                    pcell = b if b in pent else c
                    exp = 5 if ((pcell in polar and pd != JK) or (pcell not in polar and pd == IK)) else 0
                    if (r1 + r2) % 6 != exp:
                        nbad += 1
                        self.bad("T3", "pentrots:%d<->%d" % (min(b, c), max(b, c)),
                                 "rotations between pentagon base cell %d (direction %d) and hexagon base cell %d are %d and %d (sum %d mod 6); every other pentagon has sum %d in this position"
                                 % (pcell, pd, c if b in pent else b, br[pcell][pd], r2 if b in pent else r1, (r1 + r2) % 6, exp), self.T.where("baseCellNeighbor60CCWRots"))
                if b not in pent and c not in pent:
                    if (r1 + r2) % 6 != 0:
                        nbad += 1
                        self.bad("T3", "rots:%d<->%d" % (min(b, c), max(b, c)), "rotations between hexagon base cells %d and %d are %d and %d; they must cancel (sum 0 mod 6)" % (b, c, r1, r2), self.T.where("baseCellNeighbor60CCWRots"))
                    if e != rotn(7 - d, r1):
                        nbad += 1
                        self.bad("T3", "returndir:%d->%d" % (b, c), "from base cell %d direction %d leads to %d with %d ccw rotations, so the return direction must be %d; baseCellNeighbors[%d] has %d in direction %d"
                                 % (b, d, c, r1, rotn(7 - d, r1), c, b, e), self.T.where("baseCellNeighbors"))
        if not nbad:
            self.ok("T3", n, "%d directed base-cell pairs: symmetric, distinct, pentagon K direction deleted (127/-1), hexagon-hexagon rotations cancel and determine the return direction" % n)

    def polar_pentagons(self):
        try:
            f = self.m.fn("_isBaseCellPolarPentagon")
        except AnalysisBroken:
            return set()
        out = set()
        for i in f.all_insts():
            if i.op == "icmp":
                for o in i.ops:
                    if o[0] == "c":
                        out.add(ir.cint_signed(o))
        return out

    # ------------------------------------------------------------- T4 / T2
    def live(self, ijk):
        return ijk == norm(ijk) and max(ijk) <= 2 and sum(ijk) <= 3

    def t4_bad_entries(self):
        """(bad faceIjkBaseCells entries {(f,i,j,k)}, base cells whose home lookup fails) per T4's own redundancy, without reporting"""
        if hasattr(self, "_t4bad"):
            return self._t4bad
        saved = (self.ctx, self.count)

        class Mute:
            def __init__(s2):
                s2.keys = []

            def ok(s2, *a, **k):
                pass

            def violation(s2, rule, key, msg, where="", data=None):
                s2.keys.append(key)

            def broken(s2, *a, **k):
                pass
        mute = Mute()
        self.ctx = mute
        try:
            self.T4()
        finally:
            self.ctx, self.count = saved
        bad_e, bad_b = set(), set()
        for k in mute.keys:
            mm = re.match(r"T4:(?:cross|crossrot|range):(\d+),(\d+),(\d+),(\d+)", k)
            if mm:
                bad_e.add(tuple(int(x) for x in mm.groups()))
            mm = re.match(r"T4:home:(\d+)", k)
            if mm:
                bad_b.add(int(mm.group(1)))
            mm = re.match(r"T4:baseCellData\[(\d+)\]", k)
            if mm:
                bad_b.add(int(mm.group(1)))
        self._t4bad = (bad_e, bad_b)
        return self._t4bad

    def T4(self):
        """faceIjkBaseCells: every base cell's home address looks itself up with rotation 0"""
        bcd = self.T.get("baseCellData")
        fb = self.T.get("faceIjkBaseCells")
        nbad = 0
        for b, row in enumerate(bcd):
            face, (i, j, k) = row[0][0], row[0][1]
            if not (0 <= face < len(fb) and 0 <= i <= 2 and 0 <= j <= 2 and 0 <= k <= 2):
                nbad += 1
                self.bad("T4", "baseCellData[%d].homeFijk" % b, "home address of base cell %d (face %d, ijk %s) is outside the lookup table" % (b, face, [i, j, k]), self.T.where("baseCellData"))
                continue
            e = fb[face][i][j][k]
            if e != [b, 0]:
                nbad += 1
                self.bad("T4", "home:%d" % b, "faceIjkBaseCells[%d][%d][%d][%d] = %s but it is the home address of base cell %d (must be {%d, 0})" % (face, i, j, k, e, b, b), self.T.where("faceIjkBaseCells"))
        # every live entry names a base cell in range, rotation 0..5
        n = 0
        for f_ in range(len(fb)):
            for i in range(3):
                for j in range(3):
                    for k in range(3):
                        if not self.live([i, j, k]):
                            continue
                        n += 1
                        bc, rot = fb[f_][i][j][k]
                        if not (0 <= bc < len(bcd)) or not (0 <= rot <= 5):
                            nbad += 1
                            self.bad("T4", "range:%d,%d,%d,%d" % (f_, i, j, k), "faceIjkBaseCells[%d][%d][%d][%d] = {%d,%d} out of range" % (f_, i, j, k, bc, rot), self.T.where("faceIjkBaseCells"))
        # cross-face: a live entry outside the face triangle (coordinate sum 3 > maxDim(res 0) = 2) names the same base cell as its image
        # on the adjacent face under faceNeighbors (the transformation _adjustOverageClassII applies), rotations differing by the face rotation
        fnb = self.T.get("faceNeighbors")
        ccwv = tables.kernel_vectors(self.m, self.T, "_ijkRotate60ccw")
        ncross = 0
        for f_ in range(len(fb)):
            for i in range(3):
                for j in range(3):
                    for k in range(3):
                        ijk = [i, j, k]
                        if not self.live(ijk) or sum(ijk) < 2:
                            continue
                        if sum(ijk) == 3:
                            # quadrant as in _adjustOverageClassII
                            if k > 0:
                                qs = [3 if j > 0 else 2]     # JK else KI
                            else:
                                qs = [1]                     # IJ
                        else:
                            # a point on the face's boundary is shared with the face across each edge it lies on
                            qs = ([1] if k == 0 else []) + ([2] if j == 0 else []) + ([3] if i == 0 else [])
                        for q in qs:
                            g, tr, r = fnb[f_][q]
                            v = ijk
                            for _ in range(r):
                                v = norm(lin(ccwv, v))
                            v = norm(add(v, tr))
                            if max(v) > 2 or not self.live(v):
                                continue
                            ncross += 1
                            e1 = fb[f_][i][j][k]
                            e2 = fb[g][v[0]][v[1]][v[2]]
                            if e1[0] != e2[0]:
                                nbad += 1
                                self.bad("T4", "cross:%d,%d,%d,%d" % (f_, i, j, k),
                                         "faceIjkBaseCells[%d][%d][%d][%d] names base cell %d, but the same lattice point seen from the adjacent face %d (faceNeighbors[%d][%d]) is [%d][%d][%d] = base cell %d"
                                         % (f_, i, j, k, e1[0], g, f_, q, v[0], v[1], v[2], e2[0]), self.T.where("faceIjkBaseCells"))
                            elif (e1[1] - e2[1] - r) % 6 != 0 and e1[0] not in self.pentagons():
                                nbad += 1
                                self.bad("T4", "crossrot:%d,%d,%d,%d" % (f_, i, j, k),
                                         "rotation of faceIjkBaseCells[%d][%d][%d][%d] is %d; seen from face %d it is %d and the faces differ by %d rotations (expected %d)"
                                         % (f_, i, j, k, e1[1], g, e2[1], r, (e2[1] + r) % 6), self.T.where("faceIjkBaseCells"))
        self.count["T4cross"] = ncross
        if not nbad:
            self.ok("T4", len(bcd) + n + ncross, "122 home addresses look themselves up with rotation 0; %d live entries in range; %d cross-face entries agree with their image on the adjacent face (base cell, and rotation for hexagons)" % (n, ncross))

    def T2(self):
        """hexagon rows of the neighbour tables derive from the face lookup"""
        bcd = self.T.get("baseCellData")
        fb = self.T.get("faceIjkBaseCells")
        bn = self.T.get("baseCellNeighbors")
        br = self.T.get("baseCellNeighbor60CCWRots")
        U = self.unit()
        pent = set(self.pentagons())
        n = 0
        nbad = 0
        bad_e, bad_b = self.t4_bad_entries()
        for b, row in enumerate(bcd):
            if b in pent or b in bad_b:
                continue
            face, home = row[0][0], row[0][1]
            for d in range(1, 7):
                v = norm(add(home, U[d]))
                if not self.live(v):
                    continue
                if (face, v[0], v[1], v[2]) in bad_e:
                    continue    # blame: the lookup entry fails its own redundancy (T4) - not evidence against the neighbour tables
                n += 1
                bc, rot = fb[face][v[0]][v[1]][v[2]]
                if bn[b][d] != bc:
                    nbad += 1
                    self.bad("T2", "baseCellNeighbors[%d][%d]" % (b, d),
                             "baseCellNeighbors[%d][%d] = %d, but base cell %d lives at face %d ijk %s and the lattice point one step in direction %d (%s) is base cell %d in faceIjkBaseCells"
                             % (b, d, bn[b][d], b, face, home, d, v, bc), self.T.where("baseCellNeighbors"))
                elif br[b][d] != rot:
                    nbad += 1
                    self.bad("T2", "baseCellNeighbor60CCWRots[%d][%d]" % (b, d),
                             "baseCellNeighbor60CCWRots[%d][%d] = %d, faceIjkBaseCells[%d]%s gives rotation %d for the same neighbour" % (b, d, br[b][d], face, v, rot),
                             self.T.where("baseCellNeighbor60CCWRots"))
        self.count["T2"] = n
        if not nbad:
            self.ok("T2", 2 * n, "%d hexagon (base cell, direction) pairs: neighbour and rotation equal faceIjkBaseCells[home + UNIT_VECS[d]]" % n)

    # ------------------------------------------------------------- T5
    def T5(self):
        """face adjacency tables: mutual inverse maps"""
        fnb = self.T.get("faceNeighbors")
        afd = self.T.get("adjacentFaceDir")
        ccwv = tables.kernel_vectors(self.m, self.T, "_ijkRotate60ccw")
        nf = len(fnb)
        nbad = 0
        n = 0

        def apply(o, v):
            g, tr, r = o
            for _ in range(r):
                v = norm(lin(ccwv, v))
            return norm(add(v, tr))
        for f_ in range(nf):
            if fnb[f_][0] != [f_, [0, 0, 0], 0]:
                nbad += 1
                self.bad("T5", "faceNeighbors[%d][0]" % f_, "faceNeighbors[%d][0] = %s, must be the identity {%d,{0,0,0},0}" % (f_, fnb[f_][0], f_), self.T.where("faceNeighbors"))
            if afd[f_][f_] != 0:
                nbad += 1
                self.bad("T5", "adjacentFaceDir[%d][%d]" % (f_, f_), "adjacentFaceDir[%d][%d] = %d, must be 0 (central face)" % (f_, f_, afd[f_][f_]), self.T.where("adjacentFaceDir"))
            for q in (1, 2, 3):
                g, tr, r = fnb[f_][q]
                n += 1
                if not (0 <= g < nf) or g == f_:
                    nbad += 1
                    self.bad("T5", "faceNeighbors[%d][%d].face" % (f_, q), "face %d out of range" % g, self.T.where("faceNeighbors"))
                    continue
                if afd[f_][g] != q:
                    nbad += 1
                    self.bad("T5", "adjacentFaceDir[%d][%d]" % (f_, g), "adjacentFaceDir[%d][%d] = %d but faceNeighbors[%d][%d].face = %d" % (f_, g, afd[f_][g], f_, q, g), self.T.where("adjacentFaceDir"))
                q2 = afd[g][f_]
                if q2 not in (1, 2, 3) or fnb[g][q2][0] != f_:
                    nbad += 1
                    self.bad("T5", "back:%d->%d" % (f_, g), "face %d lists %d as neighbour (quadrant %d) but face %d does not list %d back consistently (adjacentFaceDir[%d][%d] = %d)" % (f_, g, q, g, f_, g, f_, q2),
                             self.T.where("faceNeighbors"))
                    continue
                if not (0 <= r <= 5):
                    nbad += 1
                    self.bad("T5", "faceNeighbors[%d][%d].ccwRot60" % (f_, q), "rotation %d outside 0..5" % r, self.T.where("faceNeighbors"))
                    continue
                for v in ([0, 0, 0], [1, 0, 0], [0, 1, 0], [0, 0, 1], [2, 0, 1]):
                    w = apply(fnb[g][q2], apply(fnb[f_][q], v))
                    if w != norm(v):
                        nbad += 1
                        self.bad("T5", "inverse:%d<->%d" % (min(f_, g), max(f_, g)),
                                 "faceNeighbors[%d][%d] (to face %d: %d rotations, translate %s) followed by faceNeighbors[%d][%d] (%d rotations, translate %s) maps %s to %s instead of back to itself"
                                 % (f_, q, g, r, tr, g, q2, fnb[g][q2][2], fnb[g][q2][1], v, w), self.T.where("faceNeighbors"))
                        break
            # non-adjacent entries of adjacentFaceDir are -1
            adj = {fnb[f_][q][0] for q in (1, 2, 3)}
            for g in range(nf):
                if g != f_ and g not in adj and afd[f_][g] != -1:
                    nbad += 1
                    self.bad("T5", "adjacentFaceDir[%d][%d]" % (f_, g), "faces %d and %d are not adjacent in faceNeighbors but adjacentFaceDir says %d" % (f_, g, afd[f_][g]), self.T.where("adjacentFaceDir"))
        if not nbad:
            self.ok("T5", n, "%d face/quadrant pairs: adjacentFaceDir agrees with faceNeighbors, each neighbour lists the face back, and the two affine maps (rotate ccwRot60 times, add translate) are mutual inverses" % n)

    # ------------------------------------------------------------- T6
    def T6(self):
        geo = self.T.get("faceCenterGeo")
        pt = self.T.get("faceCenterPoint")
        nbad = 0
        worst = 0.0
        if len(geo) != len(pt):
            raise AnalysisBroken("faceCenterGeo / faceCenterPoint row counts differ")
        for f_, ((lat, lng), (x, y, z)) in enumerate(zip(geo, pt)):
            ex = (math.cos(lat) * math.cos(lng), math.cos(lat) * math.sin(lng), math.sin(lat))
            d = max(abs(ex[0] - x), abs(ex[1] - y), abs(ex[2] - z))
            worst = max(worst, d)
            if d > 1e-12:
                nbad += 1
                self.bad("T6", "face%d" % f_, "faceCenterPoint[%d] = (%.16g, %.16g, %.16g) is not the unit vector of faceCenterGeo[%d] = (%.16g, %.16g): expected (%.16g, %.16g, %.16g)"
                         % (f_, x, y, z, f_, lat, lng, ex[0], ex[1], ex[2]), self.T.where("faceCenterPoint"))
        if not nbad:
            self.ok("T6", len(geo), "20 face centres: 3D point equals the unit vector of the lat/lng centre (max deviation %.2e)" % worst)

    # ------------------------------------------------------------- T8
    def T8(self):
        nbad = 0
        d2vH = self.T.get("directionToVertexNumHex")
        d2vP = self.T.get("directionToVertexNumPent")
        v2dH = self.T.get("vertexNumToDirectionHex")
        v2dP = self.T.get("vertexNumToDirectionPent")
        for d in range(1, 7):
            v = d2vH[d]
            if not (0 <= v < len(v2dH)) or v2dH[v] != d:
                nbad += 1
                self.bad("T8", "hex:dir%d" % d, "vertexNumToDirectionHex[directionToVertexNumHex[%d]=%d] != %d" % (d, v, d), self.T.where("directionToVertexNumHex"))
        for d in range(2, 7):
            v = d2vP[d]
            if not (0 <= v < len(v2dP)) or v2dP[v] != d:
                nbad += 1
                self.bad("T8", "pent:dir%d" % d, "vertexNumToDirectionPent[directionToVertexNumPent[%d]=%d] != %d" % (d, v, d), self.T.where("directionToVertexNumPent"))
        if sorted(v2dH) != [1, 2, 3, 4, 5, 6]:
            nbad += 1
            self.bad("T8", "hex:perm", "vertexNumToDirectionHex is not a permutation of the directions 1..6: %s" % v2dH, self.T.where("vertexNumToDirectionHex"))
        if sorted(v2dP) != [2, 3, 4, 5, 6]:
            nbad += 1
            self.bad("T8", "pent:perm", "vertexNumToDirectionPent is not a permutation of the directions 2..6: %s" % v2dP, self.T.where("vertexNumToDirectionPent"))
        # vertex numbers go counter-clockwise: consecutive vertex numbers are directions one ccw... (the two tables share the order)
        cps = self.T.copies("DIRECTIONS")
        f1, f2, ccw, cw = self.rot_maps()
        for name, D in cps:
            if sorted(D) != [1, 2, 3, 4, 5, 6]:
                nbad += 1
                self.bad("T8", name + ":perm", "%s is not a permutation of the six directions: %s" % (name, D), self.T.where(name))
                continue
            for k_ in range(6):
                if ccw.get(D[k_]) != D[(k_ + 1) % 6]:
                    nbad += 1
                    self.bad("T8", "%s[%d]" % (name, k_), "%s[%d] = %d is not followed by its counter-clockwise successor %s (found %d)" % (name, k_, D[k_], ccw.get(D[k_]), D[(k_ + 1) % 6]), self.T.where(name))
                    break
        if len(cps) >= 2 and any(c[1] != cps[0][1] for c in cps):
            nbad += 1
            self.bad("T8", "DIRECTIONS:copies", "the DIRECTIONS tables of algos.c and vertex.c differ: %s" % cps, self.T.where("DIRECTIONS"))
        rev = self.T.get("revNeighborDirectionsHex")
        D = cps[0][1]
        for d in range(1, 7):
            if not (0 <= rev[d] < 6) or D[rev[d]] != 7 - d:
                nbad += 1
                self.bad("T8", "revNeighborDirectionsHex[%d]" % d, "DIRECTIONS[revNeighborDirectionsHex[%d]=%d] is not the opposite direction %d" % (d, rev[d], 7 - d), self.T.where("revNeighborDirectionsHex"))
        if not nbad:
            self.ok("T8", 6 + 5 + 12 + 6, "direction<->vertex-number maps are inverse permutations; DIRECTIONS (both copies) is the ccw cycle of _rotate60ccw; revNeighborDirectionsHex indexes the opposite direction")

    # ------------------------------------------------------------- T9
    def T9(self):
        md = self.T.get("maxDimByCIIres")
        us = self.T.get("unitScaleByCIIres")
        nbad = 0
        for r in range(0, 17, 2):
            if us[r] != 7 ** (r // 2):
                nbad += 1
                self.bad("T9", "unitScaleByCIIres[%d]" % r, "unitScaleByCIIres[%d] = %d, must be 7^%d = %d" % (r, us[r], r // 2, 7 ** (r // 2)), self.T.where("unitScaleByCIIres"))
            if md[r] != 2 * 7 ** (r // 2):
                nbad += 1
                self.bad("T9", "maxDimByCIIres[%d]" % r, "maxDimByCIIres[%d] = %d, must be 2*7^%d = %d" % (r, md[r], r // 2, 2 * 7 ** (r // 2)), self.T.where("maxDimByCIIres"))
        if not nbad:
            self.ok("T9", 18, "maxDimByCIIres[r] = 2*7^(r/2) and unitScaleByCIIres[r] = 7^(r/2) for the even (Class II) resolutions 0..16")

    # ------------------------------------------------------------- T11
    def T11(self):
        cwt = self.T.get("neighborSetClockwise", "areNeighborCells")
        ccwt = self.T.get("neighborSetCounterclockwise", "areNeighborCells")
        nbad = 0
        for suffix in ("II", "III"):
            ND = self.T.get("NEW_DIGIT_" + suffix)
            NA = self.T.get("NEW_ADJUSTMENT_" + suffix)
            for a in range(1, 7):
                sib = sorted({ND[a][d] for d in range(1, 7) if NA[a][d] == 0 and ND[a][d] != 0})
                got = sorted({cwt[a], ccwt[a]})
                if sib != got:
                    nbad += 1
                    self.bad("T11", "digit%d:%s" % (a, suffix), "areNeighborCells' sibling shortcut lists %s as the non-centre neighbours of digit %d, the class %s digit tables make %s adjacent without leaving the parent" % (got, a, suffix, sib),
                             self.T.where("neighborSetClockwise", "areNeighborCells"))
        if not nbad:
            self.ok("T11", 12, "for digits 1..6 and both classes the shortcut tables list exactly the two siblings reachable without a carry")

    # ------------------------------------------------------------- T12
    def T12(self):
        pdf = self.T.get("pentagonDirectionFaces")
        bn = self.T.get("baseCellNeighbors")
        bcd = self.T.get("baseCellData")
        fb = self.T.get("faceIjkBaseCells")
        nbad = 0
        n = 0
        for p, faces in pdf:
            for d in (JK, IK):      # the slots vertexRotations reads
                n += 1
                nb = bn[p][d]
                exp = bcd[nb][0][0] if 0 <= nb < len(bcd) else None
                if faces[d - 2] != exp:
                    nbad += 1
                    self.bad("T12", "pentagonDirectionFaces[%d].faces[%d]" % (p, d - 2),
                             "pentagonDirectionFaces for pentagon %d, direction %d names face %d; the neighbour in that direction is base cell %s whose home face is %s" % (p, d, faces[d - 2], nb, exp),
                             self.T.where("pentagonDirectionFaces"))
        # cwOffsetPent faces of pentagons are faces on which the pentagon appears
        for p in self.pentagons():
            faces_with_p = {f_ for f_ in range(len(fb)) for i in range(3) for j in range(3) for k in range(3) if self.live([i, j, k]) and fb[f_][i][j][k][0] == p}
            for fo in bcd[p][2]:
                n += 1
                if fo != -1 and fo not in faces_with_p:
                    nbad += 1
                    self.bad("T12", "cwOffsetPent:%d" % p, "baseCellData[%d].cwOffsetPent names face %d, but pentagon %d only touches faces %s" % (p, fo, p, sorted(faces_with_p)), self.T.where("baseCellData"))
        if not nbad:
            self.ok("T12", n, "pentagon direction/face table (JK, IK slots) equals the home face of the neighbour in that direction; cwOffsetPent faces are faces the pentagon touches")

    # ------------------------------------------------------------- T19
    def T19(self):
        """cwOffsetPent is derivable from where the pentagon sits on each of its faces.
        In a face's own ijk frame the deleted wedge is the K wedge.  The part of the pentagon that lies on the face is the wedge
        pointing from the pentagon (a face vertex, 2*U[v]) towards the face centre, i.e. the direction opposite to v.  If the K wedge is
        the clockwise neighbour of that wedge the face is a "cw offset" face (leading-K cells are renamed by a cw rotation, across the
        gap); if it is the counter-clockwise neighbour it must not be one; if it is neither, no leading-K cell occurs (dead)."""
        bcd = self.T.get("baseCellData")
        fb = self.T.get("faceIjkBaseCells")
        U = self.unit()
        f1, f2, ccw, cw = self.rot_maps()
        opp = lambda d: f1(f1(f1(d)))
        n = nbad = 0
        for p in self.pentagons():
            listed = {x for x in bcd[p][2] if x != -1}
            must, mustnot = set(), set()
            for f_ in range(len(fb)):
                for d in range(1, 7):
                    v = [2 * c for c in U[d]]
                    if max(v) > 2 or not self.live(v):
                        continue
                    if fb[f_][v[0]][v[1]][v[2]][0] != p:
                        continue
                    inward = opp(d)
                    if f2(inward) == K:
                        must.add(f_)
                    elif f1(inward) == K:
                        mustnot.add(f_)
            n += len(must) + len(mustnot)
            for f_ in sorted(must - listed):
                nbad += 1
                self.bad("T19", "cwOffsetPent:%d:missing%d" % (p, f_), "pentagon %d sits at the J vertex of face %d (the K wedge is the clockwise neighbour of the wedge on that face), "
                         "so face %d must be listed in baseCellData[%d].cwOffsetPent = %s" % (p, f_, f_, p, bcd[p][2]), self.T.where("baseCellData"))
            for f_ in sorted(listed & mustnot):
                nbad += 1
                self.bad("T19", "cwOffsetPent:%d:wrong%d" % (p, f_), "baseCellData[%d].cwOffsetPent lists face %d, but on that face the pentagon sits at the I vertex (the K wedge is the "
                         "counter-clockwise neighbour of the wedge on the face): leading-K cells there must be renamed by a ccw rotation" % (p, f_), self.T.where("baseCellData"))
            for f_ in sorted(listed - must - mustnot):
                nbad += 1
                self.bad("T19", "cwOffsetPent:%d:stray%d" % (p, f_), "baseCellData[%d].cwOffsetPent lists face %d, on which the pentagon has no wedge adjacent to the K wedge" % (p, f_), self.T.where("baseCellData"))
        if n < 36:
            raise AnalysisBroken("T19: only %d (pentagon, face) pairs with a wedge adjacent to the K wedge found" % n)
        if not nbad:
            self.ok("T19", n, "for all 12 pentagons cwOffsetPent lists exactly the faces on which the pentagon sits at the vertex whose inward wedge has the K wedge as clockwise neighbour (derived from faceIjkBaseCells and _rotate60cw/ccw); %d (pentagon, face) pairs" % n)

    # ------------------------------------------------------------- T13
    def T13(self):
        hII = self.T.get("vertsCII", "_faceIjkToVerts")
        hIII = self.T.get("vertsCIII", "_faceIjkToVerts")
        pII = self.T.get("vertsCII", "_faceIjkPentToVerts")
        pIII = self.T.get("vertsCIII", "_faceIjkPentToVerts")
        nbad = 0
        if pII != hII[:5]:
            nbad += 1
            self.bad("T13", "pent:vertsCII", "pentagon Class II substrate vertices %s are not the first five hexagon ones %s" % (pII, hII[:5]), self.T.where("vertsCII", "_faceIjkPentToVerts"))
        if pIII != hIII[:5]:
            nbad += 1
            self.bad("T13", "pent:vertsCIII", "pentagon Class III substrate vertices %s are not the first five hexagon ones %s" % (pIII, hIII[:5]), self.T.where("vertsCIII", "_faceIjkPentToVerts"))
        # each vertex list is a closed ccw hexagon around the origin: consecutive vertices differ by a 60 degree rotation
        ccwv = tables.kernel_vectors(self.m, self.T, "_ijkRotate60ccw")
        for name, V in (("vertsCII", hII), ("vertsCIII", hIII)):
            for k_ in range(6):
                if norm(lin(ccwv, V[k_])) != norm(V[(k_ + 1) % 6]):
                    nbad += 1
                    self.bad("T13", "%s[%d]" % (name, k_), "_faceIjkToVerts.%s[%d] = %s rotated 60 degrees ccw is %s, the next vertex is %s" % (name, k_, V[k_], norm(lin(ccwv, V[k_])), V[(k_ + 1) % 6]),
                             self.T.where(name, "_faceIjkToVerts"))
                    break
        if not nbad:
            self.ok("T13", 22, "pentagon substrate-vertex tables are the first five rows of the hexagon ones; each hexagon table is a closed ccw ring under _ijkRotate60ccw")

    # ------------------------------------------------------------- T14
    def T14(self):
        PR = self.T.get("PENTAGON_ROTATIONS")
        PRR = self.T.get("PENTAGON_ROTATIONS_REVERSE")
        FD = self.T.get("FAILED_DIRECTIONS")
        f1, f2, ccw, cw = self.rot_maps()
        nbad = 0
        n = 0
        for o in range(7):
            for i in range(1, 7):
                if o == K or i == K:
                    continue
                if FD[o][i]:
                    continue
                r = PR[o][i]
                if r < 0:
                    continue
                n += 1
                i2 = i
                for _ in range(r):
                    i2 = f2(i2)
                m_ = PRR[o][i2]
                if m_ < 0:
                    continue
                back = i2
                for _ in range(m_):
                    back = f1(back)
                if back not in (i, K):
                    nbad += 1
                    self.bad("T14", "origin%d:index%d" % (o, i),
                             "PENTAGON_ROTATIONS[%d][%d] = %d turns index digit %d into %d; PENTAGON_ROTATIONS_REVERSE[%d][%d] = %d turns it into %d instead of back into %d (localIjToCell would return a different cell)"
                             % (o, i, r, i, i2, o, i2, m_, back, i), self.T.where("PENTAGON_ROTATIONS_REVERSE"))
        # the other direction, for the base-cell direction seen from a pentagon origin: localIjkToCell turns an arriving direction d into
        # ccw^R(d), R = PENTAGON_ROTATIONS_REVERSE[L][d]; cellToLocalIjk turns a base-cell direction e into cw^r(e), r = PENTAGON_ROTATIONS[L][e]
        # (or refuses it): wherever both succeed they must be inverse
        n2 = 0
        for L in range(7):
            if L == K:
                continue
            for d in range(1, 7):
                R = PRR[L][d]
                if R < 0:
                    continue
                e = d
                for _ in range(R):
                    e = f1(e)
                if e == K or FD[L][e] or PR[L][e] < 0:
                    continue
                back = e
                for _ in range(PR[L][e]):
                    back = f2(back)
                n2 += 1
                if back != d:
                    nbad += 1
                    self.bad("T14", "origin%d:dir%d:back" % (L, d),
                             "PENTAGON_ROTATIONS_REVERSE[%d][%d] = %d sends the arriving direction %d to base-cell direction %d, which PENTAGON_ROTATIONS[%d][%d] = %d unfolds to direction %d: "
                             "both conversions succeed and disagree" % (L, d, R, d, e, L, e, PR[L][e], back), self.T.where("PENTAGON_ROTATIONS_REVERSE"))
        if not nbad:
            self.ok("T14", n + n2, "%d (origin digit, index digit) pairs: PENTAGON_ROTATIONS_REVERSE undoes PENTAGON_ROTATIONS (or lands on the deleted K direction, which fails); "
                    "%d (origin digit, arriving direction) pairs unfold back to the same direction or are refused" % (n, n2))

    # ------------------------------------------------------------- T20
    def T20(self):
        """PENTAGON_ROTATIONS_REVERSE_NONPOLAR / _POLAR undo the unfolding cellToLocalIjk applies to an index on a pentagon base cell seen from a
        neighbouring hexagon base cell: forward = pentagon-cw rotations by the base-cell rotation count (the reverse direction rotates along,
        skipping K), then PENTAGON_ROTATIONS[revDir'][leading'] plain cw rotations; backward = plain ccw by the base-cell rotation count, then
        TABLE[revDir][leading] pentagon-ccw rotations.  Asserted on the image of the forward map (pairs that FAILED_DIRECTIONS refuses are skipped)."""
        bn = self.T.get("baseCellNeighbors")
        br = self.T.get("baseCellNeighbor60CCWRots")
        PR = self.T.get("PENTAGON_ROTATIONS")
        NP = self.T.get("PENTAGON_ROTATIONS_REVERSE_NONPOLAR")
        PO = self.T.get("PENTAGON_ROTATIONS_REVERSE_POLAR")
        FD = self.T.get("FAILED_DIRECTIONS")
        ccw, cw, _a, _b = self.rot_maps()
        polar = set(self.polar_pentagons())
        n = nbad = 0
        for p in self.pentagons():
            name = "PENTAGON_ROTATIONS_REVERSE_POLAR" if p in polar else "PENTAGON_ROTATIONS_REVERSE_NONPOLAR"
            tab = PO if p in polar else NP
            for rev in range(2, 7):
                o = bn[p][rev]
                if not (0 <= o < len(bn)):
                    continue
                dirs = [d for d in range(1, 7) if bn[o][d] == p]
                if len(dirs) != 1:
                    continue        # adjacency asymmetry is T3's finding
                rots = br[o][dirs[0]]
                for d0 in range(2, 7):
                    d, rd = d0, rev
                    for _ in range(rots):
                        d = cw(d)
                        if d == K:
                            d = cw(d)
                        rd = cw(rd)
                        if rd == K:
                            rd = cw(rd)
                    if FD[d][rd]:
                        continue
                    pr = PR[rd][d]
                    if pr < 0:
                        continue
                    lead = d
                    for _ in range(pr):
                        lead = cw(lead)
                    for _ in range(rots):
                        lead = ccw(lead)
                    R = tab[rev][lead]
                    n += 1
                    e = lead
                    for _ in range(max(R, 0)):
                        e = ccw(e)
                        if e == K:
                            e = ccw(e)
                    if R < 0 or e != d0:
                        nbad += 1
                        self.bad("T20", "%s[%d][%d]" % (name, rev, lead),
                                 "%s[%d][%d] = %d: an index with leading digit %d on pentagon base cell %d, unfolded from its neighbour in direction %d (base cell %d, %d base-cell rotations, "
                                 "PENTAGON_ROTATIONS[%d][%d] = %d), arrives with leading digit %d and is rotated back to leading digit %s instead of %d (localIjToCell(cellToLocalIj(h)) != h)"
                                 % (name, rev, lead, R, d0, p, rev, o, rots, rd, d, pr, lead, e if R >= 0 else "-", d0), self.T.where(name))
        if n < 150:
            raise AnalysisBroken("T20: only %d (pentagon, direction, leading digit) instances" % n)
        # the other direction ("mutually inverse wherever both succeed"): whatever cell the reverse table produces for an arriving leading digit,
        # unfolding that cell forward again must give the same leading digit back, or fail
        def forward(p, rev, d0):
            o = bn[p][rev]
            dirs = [d for d in range(1, 7) if bn[o][d] == p]
            if len(dirs) != 1:
                return None
            rots = br[o][dirs[0]]
            d, rd = d0, rev
            for _ in range(rots):
                d = cw(d)
                if d == K:
                    d = cw(d)
                rd = cw(rd)
                if rd == K:
                    rd = cw(rd)
            if FD[d][rd]:
                return None
            pr = PR[rd][d]
            if pr < 0:
                return None
            lead = d
            for _ in range(pr):
                lead = cw(lead)
            for _ in range(rots):
                lead = ccw(lead)
            return lead
        n2 = 0
        for p in self.pentagons():
            name = "PENTAGON_ROTATIONS_REVERSE_POLAR" if p in polar else "PENTAGON_ROTATIONS_REVERSE_NONPOLAR"
            tab = PO if p in polar else NP
            for rev in range(2, 7):
                if not (0 <= bn[p][rev] < len(bn)):
                    continue
                for lead in range(1, 7):
                    R = tab[rev][lead]
                    if R < 0:
                        continue
                    e = lead
                    for _ in range(R):
                        e = ccw(e)
                        if e == K:
                            e = ccw(e)
                    if e == K:
                        continue
                    n2 += 1
                    back = forward(p, rev, e)
                    if back is not None and back != lead:
                        nbad += 1
                        self.bad("T20", "%s[%d][%d]:back" % (name, rev, lead),
                                 "%s[%d][%d] = %d: coordinates arriving on pentagon base cell %d (seen from its neighbour in direction %d) with leading digit %d are turned into a cell with "
                                 "leading digit %d, but cellToLocalIjk unfolds that cell to leading digit %d: both directions succeed and disagree (localIjToCell / cellToLocalIj are "
                                 "not mutually inverse there)" % (name, rev, lead, R, p, rev, lead, e, back), self.T.where(name))
        if not nbad:
            self.ok("T20", n + n2, "%d forward instances (the _NONPOLAR/_POLAR reverse tables undo the forward unfolding of an index on a pentagon base cell) and %d reverse instances "
                    "(the cell a reverse entry produces unfolds back to the same leading digit or is refused)" % (n, n2))

    # ------------------------------------------------------------- T21
    def _linear(self, f, o, depth=0):
        """integer expression over the loads of the parameter's fields i, j, k as a coefficient triple (+ constant), else None"""
        if depth > 12:
            return None
        if o[0] == "c":
            return (0, 0, 0, ir.cint_signed(o))
        if o[0] != "i":
            return None
        i = f.insts[o[1]]
        if i.op == "load":
            base, path = ir.field_path(f.module, f, i.ops[0])
            if base == ("a", 0) and len(path) == 1 and path[0][0] == "f" and path[0][1] == "CoordIJK" and path[0][2] in ("i", "j", "k"):
                k = "ijk".index(path[0][2])
                return tuple(1 if x == k else 0 for x in range(3)) + (0,)
            return None
        if i.op in ("add", "sub"):
            a, b = self._linear(f, i.ops[0], depth + 1), self._linear(f, i.ops[1], depth + 1)
            if a is None or b is None:
                return None
            sg = 1 if i.op == "add" else -1
            return tuple(x + sg * y for x, y in zip(a, b))
        if i.op in ("mul", "shl"):
            a = self._linear(f, i.ops[0], depth + 1)
            c = i.ops[1]
            if a is None or c[0] != "c":
                return None
            k = ir.cint_signed(c) if i.op == "mul" else (1 << c[1])
            return tuple(x * k for x in a)
        if i.op in ("sext", "zext", "trunc", "freeze"):
            return self._linear(f, i.ops[0], depth + 1)
        return None

    def T21(self):
        """the aperture-7 parent kernels invert the child kernels: the linear forms _upAp7(r)[Checked] round (from the IR) times the constant
        vectors of _downAp7(r) give 7 * identity in IJ coordinates, and the scale constant is 1/7"""
        n = nbad = 0
        # read the kernels with their helpers inlined (a kernel written through ijkToIj()/_setIJK() has the same linear form)
        try:
            from . import props as _props
            mi = _props.module(self.cfg, "inl", ["_upAp7", "_upAp7Checked", "_upAp7r", "_upAp7rChecked"])
        except Exception:
            mi = self.m
        for up, down in (("_upAp7", "_downAp7"), ("_upAp7Checked", "_downAp7"), ("_upAp7r", "_downAp7r"), ("_upAp7rChecked", "_downAp7r")):
            f = mi.fn(up)
            vecs = tables.kernel_vectors(self.m, self.T, down)
            rows = {}
            for st in f.all_insts():
                if st.op != "store":
                    continue
                base, path = ir.field_path(f.module, f, st.ops[1])
                if base != ("a", 0) or len(path) != 1 or path[0][0] != "f" or path[0][2] not in ("i", "j"):
                    continue
                v = st.ops[0]
                chain = []
                while v[0] == "i" and f.insts[v[1]].op in ("trunc", "fptosi", "sext"):
                    v = f.insts[v[1]].ops[0]
                if v[0] != "i" or f.insts[v[1]].op != "call" or f.insts[v[1]].callee not in ("lround", "llround", "lrint"):
                    continue        # stores of the inlined normalisation
                fm = f.insts[v[1]].ops[0]
                fm = f.insts[fm[1]] if fm[0] == "i" else None
                if fm is None or fm.op not in ("fmul", "fdiv"):
                    raise AnalysisBroken("%s: rounded value is not a scaled integer expression" % up)
                a, b = fm.ops
                if fm.op == "fmul" and a[0] == "f":
                    a, b = b, a
                if b[0] != "f" or a[0] != "i" or f.insts[a[1]].op != "sitofp":
                    raise AnalysisBroken("%s: scale is not a constant times an integer expression" % up)
                scale = float(b[1]) if fm.op == "fmul" else 1.0 / float(b[1])
                lin = self._linear(f, f.insts[a[1]].ops[0])
                if lin is None:
                    raise AnalysisBroken("%s: integer expression is not linear in the fields i, j, k" % up)
                rows[path[0][2]] = (lin, scale, st)
            if set(rows) != {"i", "j"}:
                raise AnalysisBroken("%s: stores to both i and j of the form round(linear * c) not found" % up)
            for comp, (lin, scale, st) in sorted(rows.items()):
                n += 1
                if abs(scale * 7.0 - 1.0) > 1e-15:
                    nbad += 1
                    self.bad("T21", "%s:%s:scale" % (up, comp), "%s scales component %s by %.17g; the aperture-7 parent needs 1/7" % (up, comp, scale), st.where())
                    continue
                if lin[3] != 0:
                    nbad += 1
                    self.bad("T21", "%s:%s:offset" % (up, comp), "%s adds the constant %d before scaling component %s" % (up, lin[3], comp), st.where())
                    continue
                for d, U in enumerate(([1, 0, 0], [0, 1, 0], [0, 0, 1])):
                    child = lin_apply = [sum(U[c] * vecs[c][x] for c in range(3)) for x in range(3)]      # down(U)
                    got = sum(lin[x] * child[x] for x in range(3))
                    ij = (U[0] - U[2], U[1] - U[2])
                    want = 7 * (ij[0] if comp == "i" else ij[1])
                    if got != want:
                        nbad += 1
                        self.bad("T21", "%s:%s" % (up, comp), "%s computes component %s as round((%d*i %+d*j %+d*k)/7); applied to %s of the unit vector %s = %s this gives %d/7, but the parent of a "
                                 "centre child must be the cell itself (%d/7)" % (up, comp, lin[0], lin[1], lin[2], down, U, child, got, want), st.where())
                        break
        if not nbad:
            self.ok("T21", n, "the linear forms of _upAp7/_upAp7r (and the overflow-checked variants) times the constant vectors of _downAp7/_downAp7r give 7*identity in IJ coordinates, scale 1/7")

    # ------------------------------------------------------------- T22
    def _linmap(self, fname, in_arg, in_fields, out_arg, out_fields):
        """linear map a conversion function applies: {out field: coefficients over in_fields (+const)}; fields never stored keep their input value"""
        f = self.m.fn(fname)

        def lin(o, depth=0):
            if depth > 12:
                return None
            if o[0] == "c":
                return tuple(0 for _ in in_fields) + (ir.cint_signed(o),)
            if o[0] != "i":
                return None
            i = f.insts[o[1]]
            if i.op == "load":
                base, path = ir.field_path(self.m, f, i.ops[0])
                if base == ("a", in_arg) and len(path) == 1 and path[0][0] == "f" and path[0][2] in in_fields:
                    return tuple(1 if x == path[0][2] else 0 for x in in_fields) + (0,)
                return None
            if i.op in ("add", "sub"):
                a, b = lin(i.ops[0], depth + 1), lin(i.ops[1], depth + 1)
                if a is None or b is None:
                    return None
                sg = 1 if i.op == "add" else -1
                return tuple(x + sg * y for x, y in zip(a, b))
            if i.op in ("mul", "shl") and i.ops[1][0] == "c":
                a = lin(i.ops[0], depth + 1)
                if a is None:
                    return None
                k = ir.cint_signed(i.ops[1]) if i.op == "mul" else (1 << i.ops[1][1])
                return tuple(x * k for x in a)
            return None
        out = {}
        for st in f.all_insts():
            if st.op != "store":
                continue
            base, path = ir.field_path(self.m, f, st.ops[1])
            if base == ("a", out_arg) and len(path) == 1 and path[0][0] == "f" and path[0][2] in out_fields:
                l_ = lin(st.ops[0])
                if l_ is None:
                    raise AnalysisBroken("%s: the value stored to %s is not linear in the input coordinates" % (fname, path[0][2]))
                if path[0][2] in out:
                    raise AnalysisBroken("%s: %s is stored more than once" % (fname, path[0][2]))
                out[path[0][2]] = l_
        if in_arg == out_arg:
            for k, fld in enumerate(out_fields):
                if fld not in out and fld in in_fields:
                    out[fld] = tuple(1 if x == fld else 0 for x in in_fields) + (0,)
        if set(out) != set(out_fields):
            raise AnalysisBroken("%s: not every output coordinate is stored (%s)" % (fname, sorted(out)))
        return out, f

    def T22(self):
        """coordinate conversions that are documented as mutually inverse compose to the identity (ijk+ coordinates modulo (1,1,1), which
        _ijkNormalize removes): ijkToIj/ijToIjk and ijkToCube/cubeToIjk"""
        n = nbad = 0
        IJK, IJ = ("i", "j", "k"), ("i", "j")
        pairs = [("ijkToIj", (0, IJK, 1, IJ), "ijToIjk", (0, IJ, 1, IJK)), ("ijkToCube", (0, IJK, 0, IJK), "cubeToIjk", (0, IJK, 0, IJK))]
        for fa, sa, fb, sb in pairs:
            A, fA = self._linmap(fa, *sa)
            B, fB = self._linmap(fb, *sb)
            for d, U in enumerate(([1, 0, 0], [0, 1, 0], [0, 0, 1], [2, 1, 0], [0, 3, 5])):
                n += 1
                mid = {fld: sum(c * U[k] for k, c in enumerate(A[fld][:-1])) + A[fld][-1] for fld in sa[3]}
                back = [sum(c * mid[fin] for fin, c in zip(sb[1], B[fld][:-1])) + B[fld][-1] for fld in sb[3]]
                diff = [b - u for b, u in zip(back, U)]
                if len(set(diff)) != 1:
                    nbad += 1
                    self.bad("T22", "%s:%s" % (fa, fb), "%s followed by %s maps the ijk+ coordinates %s to %s, which is not the same cell (the difference %s is not a multiple of (1,1,1)); "
                             "the two conversions are documented as mutually inverse" % (fa, fb, U, back, diff), fB.where())
                    break
        if not nbad:
            self.ok("T22", n, "ijkToIj/ijToIjk and ijkToCube/cubeToIjk compose to the identity on ijk+ coordinates modulo (1,1,1) (linear forms read from the IR)")

    # ------------------------------------------------------------- T15 per-resolution constant tables
    def T15(self):
        """average area / edge tables are consistent between their units"""
        aK = self.T.get("areas", "getHexagonAreaAvgKm2")
        aM = self.T.get("areas", "getHexagonAreaAvgM2")
        lK = self.T.get("lens", "getHexagonEdgeLengthAvgKm")
        lM = self.T.get("lens", "getHexagonEdgeLengthAvgM")
        nbad = 0
        for r in range(16):
            if abs(aM[r] / (aK[r] * 1e6) - 1) > 1e-6:
                nbad += 1
                self.bad("T15", "area[%d]" % r, "average hexagon area at res %d: %.12g m2 is not 1e6 x %.12g km2" % (r, aM[r], aK[r]), self.T.where("areas", "getHexagonAreaAvgM2"))
            if abs(lM[r] / (lK[r] * 1e3) - 1) > 1e-6:
                nbad += 1
                self.bad("T15", "len[%d]" % r, "average edge length at res %d: %.12g m is not 1e3 x %.12g km" % (r, lM[r], lK[r]), self.T.where("lens", "getHexagonEdgeLengthAvgM"))
        for name, tab, fn in (("areas(km2)", aK, "getHexagonAreaAvgKm2"), ("lens(km)", lK, "getHexagonEdgeLengthAvgKm")):
            if any(tab[r] <= tab[r + 1] for r in range(15)):
                nbad += 1
                self.bad("T15", name + ":monotone", "%s table is not strictly decreasing with resolution" % name, self.m.fn(fn).where())
        if not nbad:
            self.ok("T15", 34, "km/m tables of average area and edge length agree (1e6, 1e3) and decrease with resolution")

    # ------------------------------------------------------------- T17 / T18 polyfill tables
    def T17(self):
        """the per-resolution maximum edge length is not below the average edge length (a bounding box built from it must cover the cell)"""
        mx = self.T.get("MAX_EDGE_LENGTH_RADS")
        lens = self.T.get("lens", "getHexagonEdgeLengthAvgKm")
        floats, ints = macro_values(self.cfg)
        R = floats.get("EARTH_RADIUS_KM")
        if R is None:
            raise AnalysisBroken("EARTH_RADIUS_KM not found")
        nbad = 0
        if len(mx) != 16:
            raise AnalysisBroken("MAX_EDGE_LENGTH_RADS does not have 16 entries")
        for r in range(16):
            avg = lens[r] / R
            if mx[r] < avg:
                nbad += 1
                self.bad("T17", "MAX_EDGE_LENGTH_RADS[%d]" % r, "MAX_EDGE_LENGTH_RADS[%d] = %.12g rad is smaller than the AVERAGE hexagon edge at that resolution (%.12g rad = %.6g km / R): cell bounding boxes built from it do not cover their cells"
                         % (r, mx[r], avg, lens[r]), self.T.where("MAX_EDGE_LENGTH_RADS"))
            if r and not (mx[r] < mx[r - 1]):
                nbad += 1
                self.bad("T17", "MAX_EDGE_LENGTH_RADS[%d]:order" % r, "MAX_EDGE_LENGTH_RADS is not decreasing at resolution %d" % r, self.T.where("MAX_EDGE_LENGTH_RADS"))
        if not nbad:
            self.ok("T17", 31, "MAX_EDGE_LENGTH_RADS[r] >= average edge length (getHexagonEdgeLengthAvgKm / EARTH_RADIUS_KM) and decreasing, r = 0..15")

    def T18(self):
        """pole-cell tables hold valid cell indexes of the right resolution (documented layout), one per resolution"""
        nbad = 0
        pent = set(self.pentagons())
        nb = len(self.T.get("baseCellData"))
        for name in ("NORTH_POLE_CELLS", "SOUTH_POLE_CELLS"):
            t = self.T.get(name)
            if len(t) != 16:
                raise AnalysisBroken("%s does not have 16 entries" % name)
            for r, h in enumerate(t):
                h &= (1 << 64) - 1
                why = None
                if h >> 63: why = "high bit set"
                elif (h >> 59) & 15 != 1: why = "mode %d" % ((h >> 59) & 15)
                elif (h >> 56) & 7: why = "reserved bits set"
                elif (h >> 52) & 15 != r: why = "resolution field %d" % ((h >> 52) & 15)
                elif (h >> 45) & 127 >= nb: why = "base cell %d" % ((h >> 45) & 127)
                else:
                    digits = [(h >> (3 * (15 - d))) & 7 for d in range(1, 16)]
                    if any(x == 7 for x in digits[:r]): why = "digit 7 inside the resolution"
                    elif any(x != 7 for x in digits[r:]): why = "unused digit not 7"
                    elif ((h >> 45) & 127) in pent:
                        nz = [x for x in digits[:r] if x]
                        if nz and nz[0] == 1: why = "deleted sub-sequence of a pentagon"
                if why:
                    nbad += 1
                    self.bad("T18", "%s[%d]" % (name, r), "%s[%d] = %x is not a valid cell of resolution %d: %s" % (name, r, h, r, why), self.T.where(name))
        if not nbad:
            self.ok("T18", 32, "NORTH/SOUTH_POLE_CELLS[r] are valid cell indexes of resolution r by the documented layout")

    # ------------------------------------------------------------- T16 scalar constants (from the preprocessed headers)
    def T16(self, repo=None):
        macros, ints = macro_values(self.cfg, repo)

        def need(n):
            if n not in macros:
                raise AnalysisBroken("constant %s not found in the headers" % n)
            return macros[n]
        nbad = 0
        checks = [
            ("M_SQRT7*M_RSQRT7", need("M_SQRT7") * need("M_RSQRT7"), 1.0),
            ("M_SQRT7^2", need("M_SQRT7") ** 2, 7.0),
            ("RES0_U_GNOMONIC*INV_RES0_U_GNOMONIC", need("RES0_U_GNOMONIC") * need("INV_RES0_U_GNOMONIC"), 1.0),
            ("M_RSIN60*M_SQRT3_2", need("M_RSIN60") * need("M_SQRT3_2"), 1.0),
            ("M_SQRT3_2^2", need("M_SQRT3_2") ** 2, 0.75),
            ("7*M_ONESEVENTH", 7 * need("M_ONESEVENTH"), 1.0),
            ("3*M_ONETHIRD", 3 * need("M_ONETHIRD"), 1.0),
            ("M_2PI/(2*M_PI)", need("M_2PI") / (2 * need("M_PI")), 1.0),
            ("M_PI_2/(M_PI/2)", need("M_PI_2") / (need("M_PI") / 2), 1.0),
            ("M_PI", need("M_PI"), math.pi),
            ("M_PI_180*180/M_PI", need("M_PI_180") * 180 / need("M_PI"), 1.0),
            ("M_180_PI*M_PI_180", need("M_180_PI") * need("M_PI_180"), 1.0),
            ("M_AP7_ROT_RADS", need("M_AP7_ROT_RADS"), math.asin(math.sqrt(3.0 / 28.0))),
            ("M_SIN60", need("M_SIN60"), math.sqrt(3) / 2),
        ]
        for name, got, exp in checks:
            if abs(got - exp) > 1e-13 * max(1.0, abs(exp)):
                nbad += 1
                self.bad("T16", name, "%s = %.17g, expected %.17g (constants used in pairs must be mutually consistent)" % (name, got, exp), "src/h3lib/include/constants.h")
        # integer constants
        for name, exp in (("NUM_ICOSA_FACES", 20), ("NUM_BASE_CELLS", 122), ("NUM_PENTAGONS", 12), ("NUM_HEX_VERTS", 6), ("NUM_PENT_VERTS", 5), ("MAX_H3_RES", 15)):
            if ints.get(name) != exp:
                nbad += 1
                self.bad("T16", name, "%s = %s, the grid has %d" % (name, ints.get(name), exp), "src/h3lib/include/constants.h")
        if ints.get("NUM_BASE_CELLS") != len(self.T.get("baseCellData")):
            nbad += 1
            self.bad("T16", "NUM_BASE_CELLS:rows", "NUM_BASE_CELLS = %s but baseCellData has %d rows" % (ints.get("NUM_BASE_CELLS"), len(self.T.get("baseCellData"))), "src/h3lib/include/constants.h")
        if not nbad:
            self.ok("T16", len(checks) + 7, "paired scalar constants are mutually inverse / consistent to 1e-13; grid counts 20/122/12/6/5/15")


_macro_cache = {}


def macro_values(cfg, repo=None):
    """(float macros, int macros) defined in the library's headers and units, from `clang -E -dM` with the build's flags"""
    repo = repo or build.REPO
    key = (cfg, repo)
    if key in _macro_cache:
        return _macro_cache[key]
    b = build.build(cfg, ())
    flags = build.base_flags(cfg, b["gen"], repo)
    raw = {}
    for u in b["units"]:
        out = subprocess.run([build.CLANG, "-E", "-dM"] + flags + [os.path.join(repo, u)], stdout=subprocess.PIPE, stderr=subprocess.PIPE, text=True)
        if out.returncode != 0:
            raise AnalysisBroken("preprocessing %s failed: %s" % (u, out.stderr[-300:]))
        for ln in out.stdout.splitlines():
            mm = re.match(r"#define (\w+) (.+)$", ln)
            if mm and not mm.group(1).startswith("__"):
                raw.setdefault(mm.group(1), mm.group(2).strip())
    floats, ints = {}, {}

    def resolve(v, depth=0):
        v = v.strip()
        while v.startswith("(") and v.endswith(")"):
            v = v[1:-1].strip()
        if re.match(r"^-?\d+[uUlL]*$", v):
            return int(re.sub(r"[uUlL]+$", "", v))
        if re.match(r"^[-+]?(\d+\.\d*|\.\d+|\d+)([eE][-+]?\d+)?[fFlL]?$", v):
            return float(re.sub(r"[fFlL]$", "", v))
        if re.match(r"^\w+$", v) and v in raw and depth < 5:
            return resolve(raw[v], depth + 1)
        return None
    for k, v in raw.items():
        r = resolve(v)
        if isinstance(r, int):
            ints[k] = r
            floats.setdefault(k, float(r))
        elif isinstance(r, float):
            floats[k] = r
    _macro_cache[key] = (floats, ints)
    return floats, ints


ALL = ["T1", "T2", "T3", "T4", "T5", "T6", "T7", "T8", "T9", "T10", "T11", "T12", "T13", "T14", "T15", "T16", "T17", "T18", "T19", "T20", "T21", "T22"]


def run(ctx, m, cfg, rels, only_keys=None):
    """only_keys: {relation: [key prefixes]} restricts which sub-relations of a relation are reported for this property"""
    t = Tab(ctx, m, cfg)
    t.only_keys = only_keys or {}
    for r in rels:
        t.run(r)
    return t
