"""R-OWN for the linked result structures (DESIGN.md 2.4; C16 memory clause)."""
from . import ir, explore
from .explore import Explorer, singleton, is_empty, inter, const
from .build import AnalysisBroken
from .rules_alloc import allocator_names, call_graph, reachable

RESULT_DESTROYER = "destroyLinkedMultiPolygon"
GRAPH_DESTROYER = "destroyVertexGraph"
GRAPH_INIT = "initVertexGraph"


def _slot_type(m, f, po):
    """declared type of the memory slot a pointer operand addresses: a struct field (GEP) or the first field (cast of the struct pointer)"""
    base, path = ir.field_path(m, f, po)
    if path and path[-1][0] == "f":
        for sk, info in m.structs.items():
            if sk[7:].split(".")[0] == path[-1][1]:
                for (ft, _off), (fn_, _t) in zip(info["fields"], info["names"]):
                    if fn_ == path[-1][2]:
                        return ft
    if not path:
        t = f.args[base[1]]["type"] if base[0] == "a" else (f.insts[base[1]].type if base[0] == "i" else "")
        if f.insts[base[1]].op == "alloca" if base[0] == "i" else False:
            t = f.insts[base[1]].d.get("aty", "") + "*"
        if t.startswith("%struct.") and t.endswith("*") and not t.endswith("**"):
            info = m.structs.get(t[1:-1])
            if info and info["fields"]:
                return info["fields"][0][0]
    return None


def _alloc_types(m, names):
    """allocation sites whose block escapes into a structure: [(function, call inst, pointee type)]"""
    out = []
    for f in m.defined():
        for i in f.all_insts():
            if i.op == "call" and i.callee in names["alloc"]:
                tys = set()
                for u in f.users(("i", i.id)):
                    if u.op == "bitcast":
                        tys.add(u.type)
                    elif u.op == "store" and u.ops[0] == ["i", i.id]:
                        st = _slot_type(m, f, u.ops[1])
                        if st:
                            tys.add(st)
                out.append((f, i, sorted(tys)))
    return out


def _freed_types(m, names, roots):
    """pointer types passed to free() inside the call trees of `roots`"""
    cg = call_graph(m)
    fns = reachable(cg, roots)
    out = {}
    for fn in fns:
        f = m.functions.get(fn)
        if f is None or f.decl or not f.has_body:
            continue
        for i in f.all_insts():
            if i.op == "call" and i.callee in names["free"]:
                o = i.ops[0]
                if o[0] == "i" and f.insts[o[1]].op == "bitcast":
                    src = f.insts[o[1]].ops[0]
                    t = f.insts[src[1]].type if src[0] == "i" else (f.args[src[1]]["type"] if src[0] == "a" else "?")
                else:
                    t = f.insts[o[1]].type if o[0] == "i" else "?"
                    if o[0] == "i" and f.insts[o[1]].op == "load" and t == "i8*":
                        t = _slot_type(m, f, f.insts[o[1]].ops[0]) or t
                out.setdefault(t, []).append(i)
    return out


def check(ctx, m, cfg, rule="R-OWN"):
    names = allocator_names(cfg)
    for need in (RESULT_DESTROYER, GRAPH_DESTROYER, GRAPH_INIT, "cellsToLinkedMultiPolygon", "normalizeMultiPolygon"):
        m.fn(need)
    # ---- L4: type pairing between builders and destroyers
    freed_result = _freed_types(m, names, [RESULT_DESTROYER])
    freed_graph = _freed_types(m, names, [GRAPH_DESTROYER])
    cg = call_graph(m)
    result_builders = reachable(cg, ["_vertexGraphToLinkedGeo", "normalizeMultiPolygon"])
    graph_builders = reachable(cg, ["h3SetToVertexGraph"]) - reachable(cg, ["cellToBoundary"])
    n = 0
    for f, call, tys in _alloc_types(m, names):
        struct_tys = [t for t in tys if t.startswith("%struct.") or t.endswith("**")]
        if not struct_tys:
            continue
        t = struct_tys[0]
        owner = None
        if t in ("%struct.LinkedGeoPolygon*", "%struct.LinkedGeoLoop*", "%struct.LinkedLatLng*"):
            owner, freed, dname = "result", freed_result, RESULT_DESTROYER
        elif t in ("%struct.VertexNode*", "%struct.VertexNode**"):
            owner, freed, dname = "graph", freed_graph, GRAPH_DESTROYER
        if owner is None:
            continue
        n += 1
        inst = {"rule": "L4", "builder": f.name, "type": t, "at": call.where(), "config": cfg}
        if t in freed:
            ctx.ok(rule, inst, "%s's call tree frees a %s (%s)" % (dname, t, freed[t][0].where()))
        else:
            ctx.violation(rule, "L4:never-freed:%s:%s" % (f.name, t.strip("%*").replace("struct.", "")),
                          "%s allocates a %s that becomes part of the %s, but nothing in the call tree of %s frees a pointer of that type (the blocks leak when the %s is released)"
                          % (f.name, t, "result" if owner == "result" else "vertex graph", dname, "result" if owner == "result" else "graph"), call.where(), inst)
    ctx.floor(rule, "builder allocation sites of the linked structures", n, 5)

    # ---- L2: every function with a local VertexGraph releases it on every path after it has been initialised
    ng = 0
    inits = reachable_callers(m, GRAPH_INIT)
    for f in m.defined():
        for a in f.all_insts():
            if a.op == "alloca" and a.d.get("aty") == "%struct.VertexGraph":
                ng += 1
                _check_graph_local(ctx, m, f, a, inits, cfg, rule)
    ctx.floor(rule, "local VertexGraph objects", ng, 1)
    # h3SetToVertexGraph: after the graph parameter is initialised, an error return must destroy it
    for f in m.defined():
        if f.name in inits and f.name not in (GRAPH_INIT,) and f.args and f.args[-1]["type"] == "%struct.VertexGraph*" or \
                (f.name in inits and any(x["type"] == "%struct.VertexGraph*" for x in f.args) and f.name != GRAPH_INIT):
            if f.d["ret"] == "i32":
                _check_graph_param(ctx, m, f, inits, cfg, rule)

    # ---- L3: a failing cellsToLinkedMultiPolygon leaves nothing allocated in `out`
    _check_result_on_error(ctx, m, cfg, rule)

    # ---- L5: normalizeMultiPolygon releases a hole it cannot place
    _check_orphan_hole(ctx, m, names, cfg, rule)


def reachable_callers(m, target):
    """functions that (transitively) call target, plus target"""
    cg = call_graph(m)
    out = {target}
    changed = True
    while changed:
        changed = False
        for fn, cs in cg.items():
            if fn not in out and cs & out:
                out.add(fn)
                changed = True
    return out


def _check_graph_local(ctx, m, f, a, inits, cfg, rule):
    me = ("i", a.id)

    class P:
        def on_inst(self, ex, s, i):
            if i.op == "call" and i.callee and not i.callee.startswith("llvm."):
                if any(o[0] == "i" and ir.field_path(m, f, o)[0] == me for o in i.ops):
                    if i.callee == GRAPH_DESTROYER:
                        s.env[("own", "g")] = "released"
                    elif i.callee in inits:
                        cf = m.functions.get(i.callee)
                        if cf is not None and cf.d["ret"] == "i32":
                            s.env[("own", "g")] = ("pending", i.id)     # live iff the call succeeded
                        else:
                            s.env[("own", "g")] = "live"
            return None

        def on_refine_int(self, ex, key, av, e):
            st = e.get(("own", "g"))
            if isinstance(st, tuple) and key == ("i", st[1]):
                if singleton(av) == 0:
                    e[("own", "g")] = "live"
                elif is_empty(inter(av, const(0, av[1]))):
                    e[("own", "g")] = "released"      # the initialiser failed and (L2b) destroyed the graph itself
    ex = Explorer(f, plugin=P()).run()
    bad = [(s, t) for s, t, av in ex.rets if s.env.get(("own", "g")) == "live" or isinstance(s.env.get(("own", "g")), tuple)]
    inst = {"rule": "L2", "function": f.name, "object": a.name, "config": cfg}
    if bad:
        s, t = bad[0]
        ctx.violation(rule, "L2:graph-not-destroyed:%s" % f.name,
                      "%s can return at %s without destroyVertexGraph on its local vertex graph '%s' (nodes and bucket array leak); path lines %s"
                      % (f.name, t.where(), a.name, explore.trail_lines(f, s.trail)), t.where(), inst)
    else:
        ctx.ok(rule, inst, "all %d returns: the local vertex graph was never initialised, its initialiser failed, or destroyVertexGraph ran" % len(ex.rets))


def _check_graph_param(ctx, m, f, inits, cfg, rule):
    gk = next(k for k, x in enumerate(f.args) if x["type"] == "%struct.VertexGraph*")

    class P:
        def on_inst(self, ex, s, i):
            if i.op == "call" and i.callee and any(o == ["a", gk] for o in i.ops):
                if i.callee == GRAPH_DESTROYER:
                    s.env[("own", "g")] = "released"
                elif i.callee in inits:
                    s.env[("own", "g")] = "live"
            return None
    ex = Explorer(f, plugin=P()).run()
    bad = []
    for s, t, av in ex.rets:
        if s.env.get(("own", "g")) == "live" and (av is None or av[0] != "int" or singleton(av) != 0):
            bad.append((s, t, av))
    inst = {"rule": "L2b", "function": f.name, "config": cfg}
    if bad:
        s, t, av = bad[0]
        ctx.violation(rule, "L2b:error-with-live-graph:%s" % f.name,
                      "%s returns error %s at %s after initialising the caller's vertex graph without destroying it (the caller does not destroy on error); path lines %s"
                      % (f.name, explore.fmt(av), t.where(), explore.trail_lines(f, s.trail)), t.where(), inst)
    else:
        ctx.ok(rule, inst, "every error return after initVertexGraph is preceded by destroyVertexGraph")


def _check_result_on_error(ctx, m, cfg, rule):
    f = m.fn("cellsToLinkedMultiPolygon")
    ok_ = f.arg_index("out")
    if ok_ is None:
        raise AnalysisBroken("cellsToLinkedMultiPolygon: parameter out not found")
    cg = call_graph(m)
    fillers = {fn for fn in cg if fn != f.name and reachable(cg, [fn]) & {"addNewLinkedLoop", "addLinkedCoord", "addNewLinkedPolygon"}}

    class P:
        def on_inst(self, ex, s, i):
            if i.op == "call" and i.callee and any(o == ["a", ok_] for o in i.ops):
                if i.callee == RESULT_DESTROYER:
                    s.env[("own", "r")] = "released"
                elif i.callee in fillers:
                    s.env[("own", "r")] = "filled"
            return None
    ex = Explorer(f, plugin=P()).run()
    bad = []
    for s, t, av in ex.rets:
        if s.env.get(("own", "r")) == "filled" and (av is None or av[0] != "int" or singleton(av) != 0):
            bad.append((s, t, av))
    inst = {"rule": "L3", "function": f.name, "config": cfg}
    if bad:
        s, t, av = bad[0]
        ctx.violation(rule, "L3:error-with-result:%s" % f.name,
                      "cellsToLinkedMultiPolygon can return a non-zero code (%s) at %s after loops were added to 'out' without destroyLinkedMultiPolygon(out): the caller is told there is no result, so the memory leaks; path lines %s"
                      % (explore.fmt(av), t.where(), explore.trail_lines(f, s.trail)), t.where(), inst)
    else:
        ctx.ok(rule, inst, "every error return after the result was filled is preceded by destroyLinkedMultiPolygon(out) (%d returns explored)" % len(ex.rets))


def _check_orphan_hole(ctx, m, names, cfg, rule):
    f = m.fn("normalizeMultiPolygon")
    calls = [i for i in f.all_insts() if i.op == "call" and i.callee == "findPolygonForHole"]
    if not calls:
        raise AnalysisBroken("normalizeMultiPolygon no longer calls findPolygonForHole")
    call = calls[0]
    hole = call.ops[0]      # the inner loop being placed

    class P:
        def on_inst(self, ex, s, i):
            if i.id == call.id and s.env.get(("own", "h")) == "orphan":
                s.env[("own", "h")] = "leaked"      # next hole reached while the previous orphan is still allocated
            if i.id == call.id and ("own", "h") not in s.env:
                s.env[("own", "h")] = "orphan"
            elif i.op == "call" and i.callee in names["free"] and s.env.get(("own", "h")) in ("orphan",):
                o = i.ops[0]
                while o[0] == "i" and f.insts[o[1]].op == "bitcast":
                    o = f.insts[o[1]].ops[0]
                if o == hole or (o[0] == "i" and hole[0] == "i" and f.insts[o[1]].op == "load" and f.insts[hole[1]].op == "load"
                                 and ir.field_path(m, f, f.insts[o[1]].ops[0]) == ir.field_path(m, f, f.insts[hole[1]].ops[0])):
                    s.env[("own", "h")] = "freed"
            return None
    ex = Explorer(f, assume_def={call.id: ("ptr", None, "null")}, plugin=P(), start_block=call.block.idx)
    ex.seed_dominating = True
    ex.run()
    bad = [(s, t) for s, t, av in ex.rets if s.env.get(("own", "h")) in ("orphan", "leaked")]
    inst = {"rule": "L5", "function": f.name, "config": cfg}
    if bad:
        s, t = bad[0]
        ctx.violation(rule, "L5:orphan-hole-leak",
                      "normalizeMultiPolygon: when no polygon is found for a hole (findPolygonForHole returns NULL) the unlinked loop is not freed before %s; the caller can no longer reach it; path lines %s"
                      % (t.where(), explore.trail_lines(f, s.trail)), call.where(), inst)
    else:
        ctx.ok(rule, inst, "with findPolygonForHole assumed NULL every path frees the orphaned loop before the next hole or the return")


# ---- L6: append-at-tail protocol of addNewLinkedPolygon
def check_tail_protocol(ctx, m, cfg, rule="R-OWN"):
    """addNewLinkedPolygon(p) links a fresh polygon behind p by OVERWRITING p->next (its assert that p is the tail is compiled out in
    release builds).  A call that is executed twice for the same object p therefore orphans the polygon appended the first time: it is
    no longer reachable from the result and destroyLinkedMultiPolygon cannot release it.  Typestate: an object handed to the call is
    'has a successor' afterwards; handing it over again is a violation.  Objects are tracked when they are the same SSA value across
    executions (parameters, values defined outside every cycle through the call); flags that are phis of constants are interpreted
    exactly by the exploration, so a guarded single execution is not reported."""
    from .rules_fold import _in_cycle
    n = 0
    for f in m.defined():
        calls = [i for i in f.all_insts() if i.op == "call" and i.callee == "addNewLinkedPolygon"]
        if not calls:
            continue
        found = []

        def key_of(o):
            while o[0] == "i" and f.insts[o[1]].op in ("bitcast", "freeze"):
                o = f.insts[o[1]].ops[0]
            if o[0] == "a":
                return ("a", o[1])
            if o[0] == "i" and not _in_cycle(f, f.insts[o[1]].block.idx):
                return ("i", o[1])
            return None

        class P:
            def on_inst(self, ex, s, i):
                if i.op == "call" and i.callee == "addNewLinkedPolygon":
                    k = key_of(i.ops[0])
                    if k is not None:
                        if s.env.get(("tail-used", k)):
                            found.append((i, k, s))
                        s.env[("tail-used", k)] = True
                return None
        Explorer(f, plugin=P()).run()
        for c in calls:
            n += 1
            inst = {"rule": "L6", "function": f.name, "at": c.where(), "config": cfg}
            hit = [x for x in found if x[0].id == c.id]
            if hit:
                i, k, s = hit[0]
                nm = f.args[k[1]]["name"] if k[0] == "a" else "%" + (f.insts[k[1]].name or str(k[1]))
                ctx.violation(rule, "L6:append-twice:%s:%s" % (f.name, nm),
                              "%s calls addNewLinkedPolygon(%s) again for the same object: the call overwrites %s->next, so the polygon appended before is no longer reachable from the "
                              "result (wrong outline) and is never released by destroyLinkedMultiPolygon (path lines %s)" % (f.name, nm, nm, explore.trail_lines(f, s.trail)), i.where(), inst)
            else:
                ctx.ok(rule, inst, "no object is handed to addNewLinkedPolygon twice: each call appends behind the polygon the previous call returned")
    return n


# ---- L7: every collected hole is consumed by the assignment loop
def check_hole_loop(ctx, m, cfg, rule="R-OWN"):
    """normalizeMultiPolygon unlinks every loop from the root and collects the clockwise ones; the assignment loop then either attaches
    each to a polygon or destroys it.  An exit from that loop other than `all collected holes visited` leaves the remaining holes
    unreachable and allocated (they are no longer part of the result, so destroyLinkedMultiPolygon cannot release them).  Such an exit
    is a violation unless the code after it destroys loops in a loop of its own (then the shape is new: ANALYSIS-BROKEN)."""
    from .rules_argmin import _loop_blocks
    from .rules_fold import _in_cycle
    f = m.fn("normalizeMultiPolygon")
    calls = [i for i in f.all_insts() if i.op == "call" and i.callee == "findPolygonForHole"]
    if len(calls) != 1:
        raise AnalysisBroken("normalizeMultiPolygon: expected one findPolygonForHole call")
    call = calls[0]
    # innermost loop containing the call
    best = None
    for h in range(len(f.blocks)):
        lb = _loop_blocks(f, h)
        if h in lb and call.block.idx in lb and (best is None or len(lb) < len(best[1])):
            best = (h, lb)
    if best is None:
        raise AnalysisBroken("normalizeMultiPolygon: findPolygonForHole is not called in a loop")
    header, loop = best
    inst = {"rule": "L7", "function": f.name, "config": cfg}
    exits = []
    for b in sorted(loop):
        t = f.blocks[b].term
        for s in t.succs():
            if s not in loop:
                exits.append((b, s, t))
    # the legitimate exit: the header's comparison of the counter with the number of collected holes
    extra = [(b, s, t) for (b, s, t) in exits if b != header]
    hdr = [(b, s, t) for (b, s, t) in exits if b == header]
    if len(hdr) != 1:
        raise AnalysisBroken("normalizeMultiPolygon: the hole loop has no single exit at its header")
    t = hdr[0][2]
    cond = f.insts[t.ops[0][1]] if t.op == "br" and len(t.ops) == 3 and t.ops[0][0] == "i" else None
    if cond is None or cond.op != "icmp":
        raise AnalysisBroken("normalizeMultiPolygon: the hole loop's header test is not an integer comparison")
    if not extra:
        ctx.ok(rule, inst, "the hole-assignment loop is only left when its counter reaches the number of collected holes: every hole is attached or destroyed")
        return 1
    # is there a clean-up loop that destroys loops after the early exit?
    b, s, t = extra[0]
    seen, todo, cleanup = set(), [s], False
    while todo:
        x = todo.pop()
        if x in seen or x in loop:
            continue
        seen.add(x)
        for i in f.blocks[x].insts:
            if i.op == "call" and i.callee == "destroyLinkedGeoLoop" and _in_cycle(f, x):
                cleanup = True
        todo += f.blocks[x].succs()
    if cleanup:
        raise AnalysisBroken("normalizeMultiPolygon: the hole loop has an early exit followed by its own clean-up of loops; the rule cannot tell whether every remaining hole is released")
    ctx.violation(rule, "L7:hole-loop-exit", "normalizeMultiPolygon leaves the hole-assignment loop at %s before all collected holes were visited; the remaining holes were unlinked from the result "
                  "and are neither attached nor destroyed afterwards (they leak, also when the function reports an error)" % t.where(), t.where(), inst)
    return 1
