"""R-FMT: printf/scanf formats of the string conversions (DESIGN.md 2.4, C20)."""
import re
from . import ir, explore
from .explore import Explorer
from .build import AnalysisBroken

PRINTF = {"sprintf": 1, "snprintf": 2, "printf": 0, "fprintf": 1, "vsprintf": 1, "vsnprintf": 2}
SCANF = {"sscanf": 1, "__isoc99_sscanf": 1, "scanf": 0, "__isoc99_scanf": 0, "fscanf": 1, "__isoc99_fscanf": 1}
CONV = re.compile(r"%(?P<flags>[-+ #0']*)(?P<width>\*|\d+)?(?:\.(?P<prec>\*|\d+))?(?P<len>hh|h|ll|l|j|z|t|L)?(?P<conv>[diouxXeEfFgGaAcspn%])")
LEN64 = {"l", "ll", "j", "z", "t"}   # LP64 target (x86_64-linux): all 64 bits


def const_string(m, o):
    """the C string a constant GEP operand points to"""
    if o[0] == "ce" and o[1] in ("getelementptr", "bitcast"):
        o = o[3][0]
    if o[0] != "g":
        return None
    g = m.globals.get(o[1])
    if g is None or not g["const"] or "init" not in g or g["init"][0] != "str":
        return None
    s = g["init"][1]
    return s[:s.index("\0")] if "\0" in s else s


def parse(fmt):
    """[(literal text | conversion dict)]; None if malformed"""
    out = []
    pos = 0
    while pos < len(fmt):
        if fmt[pos] != "%":
            nxt = fmt.find("%", pos)
            nxt = len(fmt) if nxt < 0 else nxt
            out.append(fmt[pos:nxt])
            pos = nxt
            continue
        m = CONV.match(fmt, pos)
        if not m:
            return None
        out.append(m.groupdict())
        pos = m.end()
    return out


def check(ctx, m, cfg, rule="R-FMT"):
    n = 0
    for f in m.defined():
        for i in f.all_insts():
            if i.op != "call" or (i.callee not in PRINTF and i.callee not in SCANF):
                continue
            n += 1
            is_print = i.callee in PRINTF
            fidx = (PRINTF if is_print else SCANF)[i.callee]
            inst = {"function": i.src_fn, "callee": i.callee, "at": i.where(), "config": cfg}
            fmt = const_string(m, i.ops[fidx]) if fidx < len(i.ops) else None
            if fmt is None:
                ctx.violation(rule, "nonconst-format:%s" % i.src_fn, "%s is called in %s with a format that is not a constant string" % (i.callee, i.src_fn), i.where(), inst)
                continue
            items = parse(fmt)
            if items is None:
                ctx.violation(rule, "malformed-format:%s" % i.src_fn, "format %r of %s in %s is malformed" % (fmt, i.callee, i.src_fn), i.where(), inst)
                continue
            convs = [x for x in items if isinstance(x, dict) and x["conv"] != "%"]
            lits = "".join(x for x in items if isinstance(x, str))
            args = i.ops[fidx + 1:]
            inst["format"] = fmt
            if i.src_fn == "h3ToString" and is_print:
                _check_h3ToString(ctx, m, f, i, fmt, convs, lits, args, inst, rule, fidx)
            elif i.src_fn == "stringToH3" and not is_print:
                _check_stringToH3(ctx, m, f, i, fmt, convs, lits, args, inst, rule)
            else:
                # generic -Wformat style agreement: number of conversions vs arguments
                if len(convs) != len(args):
                    ctx.violation(rule, "argcount:%s" % i.src_fn, "format %r has %d conversions but %d arguments follow" % (fmt, len(convs), len(args)), i.where(), inst)
                else:
                    ctx.ok(rule, inst, "constant format, conversion count matches the arguments")
    return n


def _one_hex64(convs, lits, scan=False):
    if len(convs) != 1:
        return "exactly one conversion is expected, found %d" % len(convs)
    c = convs[0]
    if c["conv"] != "x":
        return "conversion must be lower-case hexadecimal 'x', is '%s'" % c["conv"]
    if c["len"] not in LEN64:
        return "length modifier '%s' is not 64 bits wide on the target" % (c["len"] or "")
    if c["flags"] or c["width"] or c["prec"]:
        return "flags/width/precision (%s%s%s) would pad, prefix or truncate the digits" % (c["flags"], c["width"] or "", "." + c["prec"] if c["prec"] else "")
    if lits:
        return "literal text %r surrounds the conversion" % lits
    return None


def _check_h3ToString(ctx, m, f, call, fmt, convs, lits, args, inst, rule, fidx):
    why = _one_hex64(convs, lits)
    if why:
        ctx.violation(rule, "h3ToString:format", "h3ToString formats with %r: %s (documented: lower-case, unpadded hexadecimal of the whole index)" % (fmt, why), call.where(), inst)
        return
    hk = f.arg_index("h")
    if hk is None or not args or args[0] != ["a", hk]:
        ctx.violation(rule, "h3ToString:argument", "the value formatted by h3ToString is not its parameter 'h' (whole 64-bit index)", call.where(), inst)
        return
    sk = f.arg_index("str")
    if sk is None or call.ops[0] != ["a", sk]:
        ctx.violation(rule, "h3ToString:destination", "h3ToString does not format into its 'str' parameter", call.where(), inst)
        return
    maxlen = 16 + len(lits)      # 64 bits = at most 16 hex digits
    zk = f.arg_index("sz")
    if zk is None:
        raise AnalysisBroken("h3ToString: parameter sz not found")
    if call.callee == "snprintf":
        if call.ops[1] != ["a", zk]:
            ctx.violation(rule, "h3ToString:bound", "snprintf is not bounded by the 'sz' parameter", call.where(), inst)
            return
        ctx.ok(rule, inst, "snprintf bounded by sz; one unpadded %x of 64 bits applied to h")
        return
    # sprintf: must be unreachable when sz < maxlen + 1 (derived from the format, not hard-coded)
    reached = []

    class P:
        def on_inst(self, ex, s, i):
            if i.id == call.id:
                reached.append(s)
            return None
    w = int(f.args[zk]["type"][1:])
    Explorer(f, assume={("a", zk): explore.mk(w, [(0, maxlen)])}, plugin=P()).run()
    if reached:
        ctx.violation(rule, "h3ToString:overrun", "sprintf(%r) can write %d digits + NUL = %d bytes but is reachable with sz <= %d (buffer overrun); path lines %s"
                      % (fmt, maxlen, maxlen + 1, maxlen, explore.trail_lines(f, reached[0].trail)), call.where(), inst)
        return
    ctx.ok(rule, inst, "one unpadded lower-case %%x of 64 bits applied to parameter h, written to str; longest output %d+1 bytes, and the call is unreachable when sz <= %d" % (maxlen, maxlen))


def _check_stringToH3(ctx, m, f, call, fmt, convs, lits, args, inst, rule):
    why = _one_hex64(convs, lits)
    if why:
        ctx.violation(rule, "stringToH3:format", "stringToH3 parses with %r: %s (must accept what h3ToString prints: hexadecimal into 64 bits)" % (fmt, why), call.where(), inst)
        return
    if not args:
        ctx.violation(rule, "stringToH3:argcount", "no destination argument for the conversion", call.where(), inst)
        return
    base, path = ir.field_path(m, f, args[0])
    dest_ok = base[0] == "i" and f.insts[base[1]].op == "alloca" and f.insts[base[1]].d.get("aty") == "i64" and not path
    ok_param = base == ("a", f.arg_index("out"))
    if not (dest_ok or ok_param):
        ctx.violation(rule, "stringToH3:destination", "the conversion does not store into a 64-bit H3Index object", call.where(), inst)
        return
    if dest_ok:
        # the parsed local must be what is stored to *out
        ok = False
        ok_idx = f.arg_index("out")
        for i in f.all_insts():
            if i.op == "store" and ir.field_path(m, f, i.ops[1])[0] == ("a", ok_idx) and i.ops[0][0] == "i":
                ld = f.insts[i.ops[0][1]]
                if ld.op == "load" and ir.field_path(m, f, ld.ops[0])[0] == base:
                    ok = True
        if not ok:
            ctx.violation(rule, "stringToH3:result", "the value parsed by sscanf is not the value stored to *out", call.where(), inst)
            return
    ctx.ok(rule, inst, "one %x of 64 bits parsed into an H3Index that is stored to *out; same conversion as h3ToString")
