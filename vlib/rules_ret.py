"""R-RET: error-code closure - every H3Error-typed value is one of the sixteen documented codes (DESIGN.md 2.4, C12)."""
from . import ir
from .rules_alloc import gep_field
from .build import AnalysisBroken

UNRES = "unresolved"


def check(ctx, m, cfg, api, rule="R-RET"):
    # nodes: ("ret", fn) | ("field", struct, field) | ("param", fn, idx)
    h3fns = {f.name for f in m.defined() if f.d.get("ditypes", [""])[0] == "H3Error"}
    err_fields = set()
    for sname, info in m.structs.items():
        for idx, (n, t) in enumerate(info["names"]):
            if t == "H3Error":
                err_fields.add((sname[7:].split(".")[0], n))
    err_params = set()
    for f in m.defined():
        dt = f.d.get("ditypes", [])
        # ditypes[0] is the return type; parameters follow (sret shifts the IR arguments by one)
        shift = 1 if f.args and "sret" in f.args[0]["attrs"] else 0
        for k, t in enumerate(dt[1:]):
            if t == "H3Error" and k + shift < len(f.args):
                err_params.add((f.name, k + shift))
    sets = {}
    why = {}

    def node_set(n):
        return sets.setdefault(n, set())

    def value_nodes(f, o, seen):
        """(constants, nodes, unresolved reasons) the value may come from"""
        consts, nodes, unres = set(), set(), []
        work = [o]
        while work:
            o = work.pop()
            if o[0] == "c":
                consts.add(ir.cint_signed(o))
            elif o[0] == "a":
                if (f.name, o[1]) in err_params:
                    nodes.add(("param", f.name, o[1]))
                else:
                    unres.append("argument %d of %s (not typed H3Error)" % (o[1], f.name))
            elif o[0] == "i":
                if o[1] in seen:
                    continue
                seen.add(o[1])
                i = f.insts[o[1]]
                if i.op == "phi":
                    work.extend(i.ops)
                elif i.op == "select":
                    work.extend(i.ops[1:])
                elif i.op == "call":
                    if i.callee in h3fns:
                        nodes.add(("ret", i.callee))
                    else:
                        unres.append("result of %s at %s" % (i.callee, i.where()))
                elif i.op == "load":
                    fld = None
                    if i.ops[0][0] == "i" and f.insts[i.ops[0][1]].op == "getelementptr":
                        fld = gep_field(m, f.insts[i.ops[0][1]])
                    if fld in err_fields:
                        nodes.add(("field",) + fld)
                    else:
                        unres.append("load at %s" % i.where())
                elif i.op in ("zext", "sext", "trunc", "freeze"):
                    work.append(i.ops[0])
                else:
                    unres.append("'%s' at %s" % (i.op, i.where()))
            elif o[0] in ("undef", "poison"):
                pass
            else:
                unres.append("operand kind %s" % o[0])
        return consts, nodes, unres

    deps = {}
    unresolved = {}
    for f in m.defined():
        if f.name in h3fns:
            n = ("ret", f.name)
            for r in f.rets():
                c, nd, u = value_nodes(f, r.ops[0], set())
                node_set(n).update(c)
                deps.setdefault(n, set()).update(nd)
                for x in u:
                    unresolved.setdefault(n, []).append("%s returned at %s" % (x, r.where()))
                for cv in c:
                    why.setdefault((n, cv), r)
        for i in f.all_insts():
            if i.op == "store" and i.ops[1][0] == "i" and f.insts[i.ops[1][1]].op == "getelementptr":
                fld = gep_field(m, f.insts[i.ops[1][1]])
                if fld in err_fields:
                    n = ("field",) + fld
                    c, nd, u = value_nodes(f, i.ops[0], set())
                    node_set(n).update(c)
                    deps.setdefault(n, set()).update(nd)
                    for x in u:
                        unresolved.setdefault(n, []).append("%s stored at %s" % (x, i.where()))
                    for cv in c:
                        why.setdefault((n, cv), i)
            if i.op == "call" and i.callee:
                for k, o in enumerate(i.ops):
                    if (i.callee, k) in err_params:
                        n = ("param", i.callee, k)
                        c, nd, u = value_nodes(f, o, set())
                        node_set(n).update(c)
                        deps.setdefault(n, set()).update(nd)
                        for x in u:
                            unresolved.setdefault(n, []).append("%s passed at %s" % (x, i.where()))
                        for cv in c:
                            why.setdefault((n, cv), i)
    # aggregate copies of iterator structs keep field values; zero-initialised fields (memset / aggregate init) contribute 0
    for fld in err_fields:
        node_set(("field",) + fld).add(0)
    changed = True
    while changed:
        changed = False
        for n, ds in deps.items():
            for d in ds:
                before = len(node_set(n))
                node_set(n).update(node_set(d))
                for cv in node_set(d):
                    if (n, cv) not in why and (d, cv) in why:
                        why[(n, cv)] = why[(d, cv)]
                if unresolved.get(d) and not unresolved.get(n):
                    unresolved[n] = ["via %s: %s" % (d, unresolved[d][0])]
                    changed = True
                if len(node_set(n)) != before:
                    changed = True
    check.last_sets = {fn: set(node_set(("ret", fn))) for fn in h3fns}
    nchecked = 0
    for fn in sorted(h3fns):
        n = ("ret", fn)
        nchecked += 1
        inst = {"function": fn, "exported": fn in api, "codes": sorted(node_set(n)), "config": cfg}
        bad = sorted(v for v in node_set(n) if not (0 <= v <= 15))
        if bad:
            w = why.get((n, bad[0]))
            ctx.violation(rule, "code:%s:%d" % (fn, bad[0]), "%s can return %d, which is not one of the sixteen documented H3Error codes (0..15)%s"
                          % (fn, bad[0], " - originates at " + w.where() if w is not None else ""), w.where() if w is not None else m.fn(fn).where(), inst)
        elif unresolved.get(n):
            if fn in api:
                ctx.broken(rule, "%s: an H3Error is produced by something other than a constant, a call or an error field: %s" % (fn, unresolved[n][0]))
            else:
                ctx.undecided_site(rule, "%s: %s" % (fn, unresolved[n][0]))
        else:
            ctx.ok(rule, inst, "value set of every return, through calls, parameters and error fields, is within 0..15")
    for n in sets:
        if n[0] in ("field", "param"):
            bad = sorted(v for v in node_set(n) if not (0 <= v <= 15))
            if bad:
                w = why.get((n, bad[0]))
                ctx.violation(rule, "code:%s:%d" % (".".join(str(x) for x in n[1:]), bad[0]), "H3Error %s can hold %d (not a documented code)" % (n, bad[0]),
                              w.where() if w is not None else "?", {"node": list(n), "config": cfg})
    return nchecked
