"""R-GUARD: guarded-return analysis by assume-and-explore (DESIGN.md 2.4).

A row names a function, a term and the domain the documentation accepts; the function is explored under the
assumption that the term lies OUTSIDE the domain.  Obligations:
  G1  no reachable return yields E_SUCCESS                      (sound: unknown conditions are explored both ways)
  G2  the documented code is among the reachable returns
  G3  nothing was stored through the named output parameter    (rows with "nowrite")
  G4  converse: with the term at each boundary value of the domain some return can still yield success
"""
import json, os
from . import ir, explore, bits, build
from .explore import Explorer, singleton, from_signed_ivs, full, minus, inter, is_empty, const
from .build import AnalysisBroken

CODES = {"E_SUCCESS": 0, "E_FAILED": 1, "E_DOMAIN": 2, "E_LATLNG_DOMAIN": 3, "E_RES_DOMAIN": 4, "E_CELL_INVALID": 5,
         "E_DIR_EDGE_INVALID": 6, "E_UNDIR_EDGE_INVALID": 7, "E_VERTEX_INVALID": 8, "E_PENTAGON": 9, "E_DUPLICATE_INPUT": 10,
         "E_NOT_NEIGHBORS": 11, "E_RES_MISMATCH": 12, "E_MEMORY_ALLOC": 13, "E_MEMORY_BOUNDS": 14, "E_OPTION_INVALID": 15}
NAMES = {v: k for k, v in CODES.items()}


def load_rows():
    return json.load(open(os.path.join(build.VERIF, "rules", "guards.json")))["rows"]


class WritePlugin:
    """flag ('flag','wrote') when a store goes through the named out-parameter"""

    def __init__(self, m, f, out_idx, stop_on_success=False):
        self.m, self.f, self.out = m, f, out_idx
        self.stop_on_success = stop_on_success

    def on_ret(self, ex, s, t, av):
        if self.stop_on_success and av is not None and av[0] == "int" and singleton(av) == 0:
            ex.stop = True

    def on_inst(self, ex, s, i):
        if self.out is None:
            return None
        if i.op == "store":
            base, _ = ir.field_path(self.m, self.f, i.ops[1])
            if base == ("a", self.out):
                s.env[("flag", "wrote")] = i.id
        elif i.op == "call" and i.callee:
            for k, o in enumerate(i.ops):
                if o[0] in ("i", "a"):
                    base, _ = ir.field_path(self.m, self.f, o)
                    if base == ("a", self.out) and (o[0] == "a" or self.f.insts[o[1]].type.endswith("*")):
                        cal = i.callee
                        if cal.startswith("llvm.memcpy") or cal.startswith("llvm.memset") or cal.startswith("llvm.memmove") or cal in ("sprintf", "memcpy", "memset"):
                            if k == 0:
                                s.env[("flag", "wrote")] = i.id
                        elif cal.startswith("llvm."):
                            pass
                        else:
                            cf = self.m.functions.get(cal)
                            ro = cf is not None and k < len(cf.args) and ("readonly" in cf.args[k]["attrs"] or "readnone" in cf.args[k]["attrs"])
                            if not ro:
                                s.env[("flag", "wrote")] = i.id
        return None


def _param(f, name, row):
    k = f.arg_index(name)
    if k is None:
        raise AnalysisBroken("row %s: parameter '%s' of %s not found (anchor vanished)" % (row["id"], name, f.name))
    return k


def _width(f, k):
    t = f.args[k]["type"]
    if not (t.startswith("i") and t[1:].isdigit()):
        raise AnalysisBroken("parameter %d of %s is not an integer (%s)" % (k, f.name, t))
    return int(t[1:])


def _ivs(w, ivs):
    if w == 1:
        return explore.mk(1, [tuple(x) for x in ivs])
    return from_signed_ivs(w, [tuple(x) for x in ivs])


def _fconst(f, iid, shl, c):
    return const(c << shl, int(f.insts[iid].type[1:]))


def _field_ids(f, row, spec, m=None):
    if "loadof" in spec:
        k = _param(f, spec["loadof"], row)
        ids = []
        for i in f.all_insts():
            if i.op == "load" and i.type == "i64":
                base, path = ir.field_path(f.module, f, i.ops[0])
                if base == ("a", k) and (spec.get("root") is None or i.id in spec["root"]):
                    ids += bits.field_values(f, ("i", i.id), spec["off"], spec["w"])
        if not ids:
            raise AnalysisBroken("row %s: no value in %s extracts bits [%d,%d) of an element loaded from %s"
                                 % (row["id"], f.name, spec["off"], spec["off"] + spec["w"], spec["loadof"]))
        return ids
    k = _param(f, spec["param"], row)
    ids = bits.field_values(f, ("a", k), spec["off"], spec["w"])
    if not ids:
        raise AnalysisBroken("row %s: no value in %s extracts bits [%d,%d) of parameter %s (field term not found)"
                             % (row["id"], f.name, spec["off"], spec["off"] + spec["w"], spec["param"]))
    return ids


def _field_param_av(f, row, spec, values):
    """the set of parameter values whose bit field [off,off+w) takes one of `values`, as an interval set (None if too many intervals)"""
    if "param" not in spec:
        return None, None
    k = _param(f, spec["param"], row)
    bw = _width(f, k)
    top = spec["off"] + spec["w"]
    nhi = 1 << (bw - top)
    if nhi * len(values) > 1024:
        return k, None
    ivs = []
    for hi in range(nhi):
        for v in values:
            base = (hi << top) | (v << spec["off"])
            ivs.append((base, base + (1 << spec["off"]) - 1))
    return k, explore.mk(bw, ivs)


def _assume_field(f, row, spec, values, assume, assume_def, need=True):
    """assume field in values: on the parameter itself (interval set) and on every SSA value that is exactly the field"""
    try:
        ids = _field_ids(f, row, spec)
    except AnalysisBroken:
        ids = []
    k, av = _field_param_av(f, row, spec, values)
    if av is not None:
        cur = assume.get(("a", k))
        assume[("a", k)] = inter(cur, av) if cur is not None else av
    for iid, shl in ids:
        bw = int(f.insts[iid].type[1:])
        assume_def[iid] = explore.mk(bw, [(v << shl, v << shl) for v in values])
    if not ids and av is None and need:
        raise AnalysisBroken("row %s: bit field [%d,%d) of %s is neither computed by a value of %s nor expressible on the parameter"
                             % (row["id"], spec["off"], spec["off"] + spec["w"], spec.get("param", spec.get("loadof")), f.name))
    return ids


def _addr_key(f, o, depth=0):
    """structural key of an address expression (same key = same address as long as the SSA values are the same)"""
    if o[0] == "i" and depth < 20:
        d = f.insts[o[1]]
        if d.op in ("bitcast", "getelementptr"):
            return (d.op,) + tuple(_addr_key(f, x, depth + 1) for x in d.ops)
        if d.op in ("sext", "zext"):
            return _addr_key(f, d.ops[0], depth + 1)
    return tuple(o[:2]) if o[0] in ("i", "a", "g", "c") else (o[0],)


def _fp_loads(m, f, row, spec):
    k = _param(f, spec[0], row)
    out = []
    for i in f.all_insts():
        if i.op == "load" and i.type == "double":
            base, path = ir.field_path(m, f, i.ops[0])
            if base == ("a", k) and len(path) == 1 and path[0][0] == "f" and path[0][2] == spec[1]:
                out.append(i.id)
    if not out:
        raise AnalysisBroken("row %s: no load of %s->%s in %s" % (row["id"], spec[0], spec[1], f.name))
    return out


def _calls(f, row, callee):
    ids = [i.id for i in f.all_insts() if i.op == "call" and i.callee == callee]
    if not ids:
        raise AnalysisBroken("row %s: %s no longer calls %s (helper inlined by hand or renamed)" % (row["id"], f.name, callee))
    return ids


def _loop_var(m, f, row):
    """the loop-carried variable that a loop keeps transforming with row['loop_callee'] (trip count loaded from row['trip_table']):
    -> (header phi, index of the block the loop is left to, witness text from the tables)"""
    from . import tables
    found = []
    for c in f.all_insts():
        if c.op != "call" or c.callee != row["loop_callee"] or not c.ops:
            continue
        x = c.ops[0]
        while x[0] == "i" and f.insts[x[1]].op in ("sext", "zext", "trunc", "freeze"):
            x = f.insts[x[1]].ops[0]
        if x[0] != "i" or f.insts[x[1]].op != "phi":
            continue
        P = f.insts[x[1]]
        back = False
        for o in P.ops:
            while o[0] == "i" and f.insts[o[1]].op in ("sext", "zext", "trunc", "freeze"):
                o = f.insts[o[1]].ops[0]
            if o[0] == "i" and o[1] == c.id:
                back = True
        if not back:
            continue
        H = P.block
        t = H.term
        if t.op != "br" or len(t.ops) != 3 or t.ops[0][0] != "i":
            continue
        cond = f.insts[t.ops[0][1]]
        trip = None
        for o in cond.ops if cond.op == "icmp" else []:
            while o[0] == "i" and f.insts[o[1]].op in ("sext", "zext", "trunc", "freeze"):
                o = f.insts[o[1]].ops[0]
            cands = [o]
            if o[0] == "i" and f.insts[o[1]].op in ("add", "sub") and f.insts[o[1]].ops[0][0] == "i":
                o = f.insts[o[1]].ops[0]
                cands = [o]
            if o[0] == "i" and f.insts[o[1]].op == "phi" and f.insts[o[1]].block.idx == H.idx:
                cands = list(f.insts[o[1]].ops)          # a counter that starts at the table entry and counts down
            for o2 in cands:
                while o2[0] == "i" and f.insts[o2[1]].op in ("sext", "zext", "trunc", "freeze"):
                    o2 = f.insts[o2[1]].ops[0]
                if o2[0] == "i" and f.insts[o2[1]].op == "load":
                    base, _p = ir.field_path(m, f, f.insts[o2[1]].ops[0])
                    if base[0] == "g" and base[1].split(".")[0] == row["trip_table"]:
                        trip = base[1]
        if trip is None:
            continue
        def reaches(a_, b_):
            seen, todo = set(), [a_]
            while todo:
                y = todo.pop()
                if y == b_:
                    return True
                if y in seen or y == H.idx:
                    continue
                seen.add(y)
                todo += f.blocks[y].succs()
            return False
        exits = [sx for sx in t.succs() if not reaches(sx, c.block.idx)]
        if len(exits) != 1:
            continue
        found.append((P, exits[0], trip))
    if len(found) != 1:
        raise AnalysisBroken("row %s: expected one loop in %s that applies %s a number of times loaded from %s, found %d"
                             % (row["id"], f.name, row["loop_callee"], row["trip_table"], len(found)))
    P, ex_, trip = found[0]
    # attainability from the tables themselves: (row, column) pairs whose rotated column is the value
    wit = ""
    try:
        T = tables.Tables(m).get(trip)
        mp, _dflt = tables.switch_map(m, row["loop_callee"])
        pairs = []
        for r_, rowv in enumerate(T):
            for d, n in enumerate(rowv):
                if d == 0 or n < 0:
                    continue
                v = d
                for _ in range(n):
                    v = mp.get(v, v)
                if v == row["value"]:
                    pairs.append((r_, d))
        if not pairs:
            raise AnalysisBroken("row %s: no entry of %s rotates a direction onto %d: the case is unattainable, the row is stale" % (row["id"], trip, row["value"]))
        wit = " (attained for %d table entries, e.g. %s[%d][%d])" % (len(pairs), trip, pairs[0][0], pairs[0][1])
    except KeyError:
        pass
    return P, ex_, wit


def _given(m, f, row, assume, assume_def):
    for g in row.get("given", []):
        if "param" in g:
            k = _param(f, g["param"], row)
            assume[("a", k)] = _ivs(_width(f, k), g["in"])
        elif "field" in g:
            vals = [v for lo, hi in g["in"] for v in range(lo, hi + 1)]
            _assume_field(f, row, g["field"], vals, assume, assume_def)
        elif "call" in g:
            if g.get("optional") and not any(i.op == "call" and i.callee == g["call"] for i in f.all_insts()):
                continue
            for iid in _calls(f, row, g["call"]):
                assume_def[iid] = _ivs(int(f.insts[iid].type[1:]), g["in"])
        elif "calls_returning" in g:
            # every call of a function whose declared (debug-info) return type is the named typedef, e.g. H3Error
            tn = g["calls_returning"]
            names = {x.name for x in m.defined() if x.d.get("ditypes", [""])[0] == tn}
            ids = [i.id for i in f.all_insts() if i.op == "call" and i.callee in names]
            if not ids:
                raise AnalysisBroken("row %s: %s calls no function returning %s" % (row["id"], f.name, tn))
            for iid in ids:
                assume_def[iid] = _ivs(int(f.insts[iid].type[1:]), g["in"])
        elif "local" in g:
            # every plain load of a local variable that lives in memory (its address is handed to a callee that fills it)
            allocas = {dv["v"][1] for dv in f.dbgvars if dv["name"] == g["local"] and dv["v"][0] == "i" and f.insts[dv["v"][1]].op == "alloca"}
            allocas |= {i.id for i in f.all_insts() if i.op == "alloca" and i.name == g["local"]}
            ids = []
            for i in f.all_insts():
                if i.op == "load" and i.type.startswith("i") and i.type[1:].isdigit():
                    base, path = ir.field_path(m, f, i.ops[0])
                    if base[0] == "i" and base[1] in allocas and not path:
                        ids.append(i.id)
            if not ids:
                raise AnalysisBroken("row %s: no load of a local '%s' in %s" % (row["id"], g["local"], f.name))
            for iid in ids:
                assume_def[iid] = _ivs(int(f.insts[iid].type[1:]), g["in"])


def expand(m, f, row):
    """list of runs: (label, assume, assume_def, pairs)"""
    kind = row["kind"]
    runs = []
    base_a, base_d = {}, {}
    _given(m, f, row, base_a, base_d)
    if kind == "range":
        k = _param(f, row["param"], row)
        w = _width(f, k)
        start0 = None
        if row.get("from_load"):
            lk = _param(f, row["from_load"], row)
            for i in f.all_insts():
                if i.op == "load" and ir.field_path(m, f, i.ops[0])[0] == ("a", lk):
                    start0 = i.block.idx
                    break
            if start0 is None:
                raise AnalysisBroken("row %s: no load from %s in %s" % (row["id"], row["from_load"], f.name))
        if row.get("unsigned"):
            comp = minus(full(w), explore.mk(w, [tuple(x) for x in row["accept"]]))
            for lo, hi in comp[2]:
                a = dict(base_a)
                a[("a", k)] = explore.mk(w, [(lo, hi)])
                runs.append(("%s in [%d,%d] (unsigned)" % (row["param"], lo, hi), a, dict(base_d), (), start0))
        else:
            comp = minus(full(w), _ivs(w, row["accept"]))
            for lo, hi in explore.to_signed_ivs(comp):
                a = dict(base_a)
                a[("a", k)] = from_signed_ivs(w, [(lo, hi)])
                runs.append(("%s in [%d,%d]" % (row["param"], lo, hi), a, dict(base_d), (), start0))
    elif kind == "fp":
        ids = _fp_loads(m, f, row, row["fpfield"])
        for cls in row.get("classes", ("pinf", "ninf", "nan")):
            d = dict(base_d)
            for iid in ids:
                d[iid] = ("fp", frozenset((cls,)))
            runs.append(("%s->%s is %s" % (row["fpfield"][0], row["fpfield"][1], cls), dict(base_a), d, (), None))
    elif kind == "rel_field" and "loadof" in row["field"] and "root" not in row["field"]:
        # one family of runs per load of an element: each visited element must be guarded on its own
        lk = _param(f, row["field"]["loadof"], row)
        roots = [i.id for i in f.all_insts() if i.op == "load" and i.type == "i64" and ir.field_path(m, f, i.ops[0])[0] == ("a", lk)
                 and bits.field_values(f, ("i", i.id), row["field"]["off"], row["field"]["w"])]
        if not roots:
            raise AnalysisBroken("row %s: no element of %s has its resolution field read in %s" % (row["id"], row["field"]["loadof"], f.name))
        # loads of the same address expression read the same element: they form one group, guarded by the first of them
        groups = {}
        for rid in roots:
            groups.setdefault(_addr_key(f, f.insts[rid].ops[0]), []).append(rid)
        for key, rids in groups.items():
            sub = dict(row)
            sub["field"] = dict(row["field"], root=rids)
            for r_ in expand(m, f, sub):
                runs.append(("element loaded at %s: %s" % (f.insts[rids[0]].where(), r_[0]),) + r_[1:])
        return runs
    elif kind == "rel_field":
        k = _param(f, row["param"], row)
        w = _width(f, k)
        glo, ghi = row["within"]
        for c in range(1 << row["field"]["w"]):
            rel = row["rel"]
            lo, hi = {">": (c + 1, ghi), "<": (glo, c - 1), ">=": (c, ghi), "<=": (glo, c)}[rel]
            if lo > hi:
                continue
            a = dict(base_a)
            a[("a", k)] = from_signed_ivs(w, [(lo, hi)])
            d = dict(base_d)
            ids = _assume_field(f, row, row["field"], [c], a, d)
            runs.append(("field=%d, %s in [%d,%d]" % (c, row["param"], lo, hi), a, d, (),
                         f.insts[ids[0][0]].block.idx if row.get("from_term") and ids else None))
    elif kind == "field_range":
        fw = row["field"]["w"]
        for c in range(1 << fw):
            if any(lo <= c <= hi for lo, hi in row["accept"]):
                continue
            d = dict(base_d)
            a = dict(base_a)
            _assume_field(f, row, row["field"], [c], a, d)
            runs.append(("field=%d" % c, a, d, (), None))
    elif kind == "field_ne_field":
        fw = row["field"]["w"]
        for c in range(1 << fw):
            d = dict(base_d)
            a = dict(base_a)
            _assume_field(f, row, row["field"], [c], a, d)
            _assume_field(f, row, row["field2"], [v for v in range(1 << fw) if v != c], a, d)
            runs.append(("field1=%d, field2!=%d" % (c, c), a, d, (), None))
    elif kind == "call":
        ids = _calls(f, row, row["call"])
        for iid in ids:
            bw = int(f.insts[iid].type[1:])
            comp = minus(full(bw), _ivs(bw, row["accept"]))
            for lo, hi in explore.to_signed_ivs(comp):
                d = dict(base_d)
                d[iid] = from_signed_ivs(bw, [(lo, hi)])
                runs.append(("%s() result in [%d,%d]" % (row["call"], lo, hi), dict(base_a), d, (), f.insts[iid].block.idx if row.get("from_term") else None))
    elif kind == "pair":
        # param REL local value (the first plain load of a local named row["local"]); explored with a relation fact
        k = _param(f, row["param"], row)
        lid = None
        allocas = {dv["v"][1] for dv in f.dbgvars if dv["name"] == row["local"] and dv["v"][0] == "i" and f.insts[dv["v"][1]].op == "alloca"}
        allocas |= {i.id for i in f.all_insts() if i.op == "alloca" and i.name == row["local"]}
        for i in f.all_insts():
            if i.op == "load":
                base, path = ir.field_path(m, f, i.ops[0])
                if base[0] == "i" and base[1] in allocas and not path:
                    lid = i.id
                    break
        if lid is None:
            # SSA form: a dbg.value of that name
            for dv in f.dbgvars:
                if dv["name"] == row["local"] and dv["v"][0] == "i" and dv["plain"]:
                    lid = dv["v"][1]
        if lid is None:
            raise AnalysisBroken("row %s: local '%s' not found in %s" % (row["id"], row["local"], f.name))
        pr = (("a", k), ("i", lid))
        for rel in row["rels"]:
            a = dict(base_a)
            a[("rel",) + pr] = frozenset(rel)
            runs.append(("%s %s %s" % (row["param"], rel, row["local"]), a, dict(base_d), (pr,), None))
    elif kind == "loop_value":
        P, exit_block, wit = _loop_var(m, f, row)
        a = dict(base_a)
        a[("i", P.id)] = const(row["value"], int(P.type[1:]))
        runs.append(("the value transformed by the %s loop is %d when the loop is left%s" % (row["loop_callee"], row["value"], wit), a, dict(base_d), (), exit_block))
    elif kind == "given_only":
        runs.append(("all listed conditions hold", dict(base_a), dict(base_d), (), None))
    else:
        raise AnalysisBroken("row %s: unknown kind %s" % (row["id"], kind))
    if not runs:
        raise AnalysisBroken("row %s expands to no run" % row["id"])
    return runs


def _undetermined_on_trail(f, trail, assumed_ids, attainable):
    """conditions of the conditional branches along a block trail that are neither functions of assumed values and constants nor of calls to `attainable`
    predicates on the function's arguments: list of descriptions (empty = the path is a definite counterexample)"""
    out = []
    for bi in trail:
        t = f.blocks[bi].term
        if t.op != "br" or len(t.ops) != 3:
            if t.op == "switch":
                out.append("a switch at %s" % t.where())
            continue
        todo, seen = [t.ops[0]], set()
        while todo:
            o = todo.pop()
            if o[0] in ("c", "f", "b"):
                continue
            if o[0] == "a":
                out.append("parameter '%s' (branch at %s)" % (f.args[o[1]]["name"], t.where()))
                continue
            if o[0] != "i":
                out.append("a global or constant expression (branch at %s)" % t.where())
                continue
            if o[1] in seen or o[1] in assumed_ids:
                continue
            seen.add(o[1])
            i = f.insts[o[1]]
            if i.op == "call":
                if i.callee in attainable and all(x[0] in ("a", "c") for x in i.ops):
                    continue
                out.append("%s() (branch at %s)" % (i.callee, t.where()))
                continue
            if i.op in ("load", "alloca"):
                out.append("a value loaded from memory at %s" % i.where())
                continue
            todo.extend(i.ops)
    return sorted(set(out))


def _success_reachable(m, f, assume, assume_def, pairs, start, out_idx, must_idx):
    pl = WritePlugin(m, f, out_idx if out_idx is not None else must_idx, stop_on_success=True)
    ex = Explorer(f, assume=assume, assume_def=assume_def, plugin=pl, pairs=pairs, start_block=start or 0)
    ex.seed_dominating = True
    ex.run()
    return any(av is not None and av[0] == "int" and not is_empty(inter(av, const(0, av[1]))) for s_, t_, av in ex.rets) or not ex.rets


def _split_range(lo, hi):
    """sub-ranges of [lo, hi] (signed) aligned to powers of two; singletons when small"""
    if hi - lo < 16:
        return [(v, v) for v in range(lo, hi + 1)]
    out = []
    if lo < 0:
        neg_hi = min(hi, -1)
        # mirror: magnitudes
        cur = neg_hi
        step = 1
        while cur >= lo:
            nlo = max(lo, cur - step + 1)
            out.append((nlo, cur))
            cur = nlo - 1
            step *= 2
    if hi >= 0:
        cur = max(lo, 0)
        while cur <= hi:
            nxt = 1
            while nxt <= cur:
                nxt *= 2
            nhi = min(hi, max(nxt - 1, cur))
            out.append((cur, nhi))
            cur = nhi + 1
    return out


def _confirm_success(m, f, row, assume, assume_def, pairs, start, out_idx, must_idx, depth=0):
    """-> ('confirmed', witness text) | ('refuted', None) | ('undecided', None)"""
    keys = [(k, v) for k, v in assume.items() if isinstance(k, tuple) and k[0] == "a" and isinstance(v, tuple) and v and v[0] == "int" and singleton(v) is None]
    if not keys:
        return "confirmed", None            # nothing was abstracted: the path is concrete
    k, av = max(keys, key=lambda kv: explore.to_signed_ivs(kv[1])[-1][1] - explore.to_signed_ivs(kv[1])[0][0])
    w = av[1]
    pieces = []
    for lo, hi in explore.to_signed_ivs(av):
        pieces += _split_range(lo, hi)
    if len(pieces) > 200:
        return "undecided", None
    undecided = False
    for lo, hi in pieces:
        a2 = dict(assume)
        a2[k] = from_signed_ivs(w, [(lo, hi)])
        if not _success_reachable(m, f, a2, assume_def, pairs, start, out_idx, must_idx):
            continue
        if lo == hi:
            return "confirmed", "%s = %d" % (f.args[k[1]]["name"], lo)
        if depth < 2:
            v, wit = _confirm_success(m, f, row, a2, assume_def, pairs, start, out_idx, must_idx, depth + 1)
            if v == "confirmed":
                return v, wit
            if v == "undecided":
                undecided = True
        else:
            undecided = True
    return ("undecided", None) if undecided else ("refuted", None)


def check_rows(ctx, get_module, props=None, rule="R-GUARD", cfg="release"):
    rows = [r for r in load_rows() if props is None or set(r["props"]) & set(props)]
    n = 0
    for row in rows:
        n += 1
        try:
            _check_row(ctx, get_module, row, rule, cfg)
        except AnalysisBroken as e:
            ctx.broken(rule, "row %s: %s" % (row["id"], e))
    return n


def _check_reach(ctx, m, f, row, rule, cfg):
    """kind `reach`: with the `given` conditions and the bit field taking each listed value, the calls named in must_reach are executed on every
    path that does not fail earlier, those in must_not_reach on none (a dispatch between two strategies that depends on a field of the index)"""
    base_a, base_d = {}, {}
    _given(m, f, row, base_a, base_d)
    inst = {"row": row["id"], "function": row["fn"], "module": row.get("mod", "inl"), "config": cfg}
    names = set(row.get("must_reach", [])) | set(row.get("must_not_reach", []))
    for nm in row.get("must_reach", []):
        _calls(f, row, nm)
    if not any(c.op == "call" and c.callee in names for c in f.all_insts()):
        raise AnalysisBroken("row %s: %s calls none of %s (anchors vanished)" % (row["id"], f.name, ", ".join(sorted(names))))
    argcls = row.get("arg_class")          # {"index": k, "class": "even"|"odd"}: the call counts only when that argument (an int or a pointer to a local int) is of the class
    fld = row["field"]
    bad, brk = [], []
    for v in row["values"]:
        a, d = dict(base_a), dict(base_d)
        _assume_field(f, row, row["field"], [v], a, d)

        class P:
            """records the named calls; `kill` ends every path at that call.  Scalars kept in address-taken locals (`int res` whose address is passed on
            later) are followed: a direct store defines the slot, a direct load reads it, a call that receives the address forgets it."""
            def __init__(self, kill=None):
                self.seen = set()
                self.unknown = set()
                self.mem_before = {}
                self.kill = kill

            def on_inst(self, ex, s, i):
                if i.op == "store" and i.ops[1][0] == "i" and f.insts[i.ops[1][1]].op == "alloca":
                    v = ex.eval(i.ops[0], s.env)
                    if v is not None and v[0] == "int":
                        s.env[("mem", i.ops[1][1])] = v
                    else:
                        s.env.pop(("mem", i.ops[1][1]), None)
                elif i.op == "load" and i.ops[0][0] == "i" and ("mem", i.ops[0][1]) in s.env and i.id not in ex.assume_def:
                    s.env[("i", i.id)] = s.env[("mem", i.ops[0][1])]
                elif i.op == "call" and not (i.callee or "").startswith("llvm.dbg") and not (i.callee or "").startswith("llvm.lifetime"):
                    self.mem_before = {}
                    for o in i.ops:
                        if o[0] == "i":
                            b_ = ir.field_path(m, f, o)[0]
                            if b_[0] == "i":
                                if ("mem", b_[1]) in s.env:
                                    self.mem_before[b_[1]] = s.env[("mem", b_[1])]
                                s.env.pop(("mem", b_[1]), None)
                if i.op == "call" and i.callee == "makeDirectChild" and "param" in fld and len(i.ops) >= 1:
                    # index operation with a known effect on the resolution field (decided for all values by R-BITPROV direct-child): res + 1
                    src = ex.eval(i.ops[0], s.env)
                    if src is not None and src[0] == "int" and len(src[2]) <= 1024:
                        rs = {(lo >> fld["off"]) & ((1 << fld["w"]) - 1) for lo, hi in src[2]} | {(hi >> fld["off"]) & ((1 << fld["w"]) - 1) for lo, hi in src[2]}
                        if len(rs) == 1 and next(iter(rs)) + 1 < (1 << fld["w"]):
                            r1 = next(iter(rs)) + 1
                            top = fld["off"] + fld["w"]
                            s.env[("i", i.id)] = explore.mk(64, [((hi_ << top) | (r1 << fld["off"]), ((hi_ << top) | (r1 << fld["off"])) + (1 << fld["off"]) - 1) for hi_ in range(1 << (64 - top))])
                if i.op == "call" and i.callee in names:
                    counts = True
                    if argcls is not None and i.callee in row.get("must_not_reach", []):
                        o = i.ops[argcls["index"]] if argcls["index"] < len(i.ops) else None
                        av = None
                        if o is not None and o[0] == "i" and f.insts[o[1]].op == "alloca":
                            av = self.mem_before.get(o[1])
                        elif o is not None:
                            av = ex.eval(o, s.env)
                        if av is None or av[0] != "int" or explore.count(av) > 64:
                            counts = None
                        else:
                            par = {v & 1 for lo, hi in av[2] for v in range(lo, hi + 1)}
                            want = 0 if argcls["class"] == "even" else 1
                            counts = True if par == {want} else (False if want not in par else None)
                    if counts is None:
                        self.unknown.add(i.callee)
                    elif counts:
                        self.seen.add(i.callee)
                    if self.kill == i.callee:
                        return []
                elif i.op == "call" and i.callee in m.functions and ("i", i.id) not in s.env:
                    # a pure scalar helper applied to known values (isResolutionClassIII(res)) is evaluated
                    g = m.functions[i.callee]
                    if not g.decl and "readnone" in (g.attrs or []) and g.args and not any(x["type"].endswith("*") for x in g.args):
                        vals = [singleton(ex.eval(o, s.env)) for o in i.ops[:len(g.args)]]
                        if all(v is not None for v in vals):
                            from . import ceval
                            try:
                                r = ceval.Eval(m, g, vals, {}).run()
                                s.env[("i", i.id)] = const(r, int(i.type[1:]))
                            except AnalysisBroken:
                                pass
                return None
        pl = P()
        ex = Explorer(f, assume=a, assume_def=d, plugin=pl)
        ex.run()
        if not ex.rets:
            brk.append("field = %d: no return reached" % v)
            continue
        for nm in row.get("must_not_reach", []):
            if nm in pl.seen:
                bad.append("field = %d: %s is called%s" % (v, nm, (" with an %s resolution" % argcls["class"]) if argcls else ""))
            elif nm in pl.unknown:
                brk.append("field = %d: %s is called with a resolution argument the analysis cannot classify" % (v, nm))
        for nm in row.get("must_reach", []):
            # with every path ended at the call, no return that can be E_SUCCESS may remain
            ex2 = Explorer(f, assume=a, assume_def=d, plugin=P(kill=nm))
            ex2.run()
            for s_, t_, av in ex2.rets:
                if av is None or av[0] != "int" or not is_empty(inter(av, const(0, av[1]))):
                    bad.append("field = %d: a return that can be E_SUCCESS is reached without calling %s (lines %s)" % (v, nm, explore.trail_lines(f, s_.trail)))
                    break
    if bad:
        ctx.violation(rule, row["id"], "%s: %s (%s)" % (row["fn"], "; ".join(bad[:3]), row["why"]), f.where(), inst)
    elif brk:
        ctx.broken(rule, "row %s: %s" % (row["id"], brk[0]))
    else:
        ctx.ok(rule, inst, "for each of the %d field values: %s%s" % (len(row["values"]),
               ("every successful path calls " + ", ".join(row.get("must_reach", []))) if row.get("must_reach") else "",
               ("; never calls " + ", ".join(row["must_not_reach"])) if row.get("must_not_reach") else ""))


def _check_row(ctx, get_module, row, rule, cfg):
    rule = row.get("rule", rule)
    m = get_module(row.get("mod", "inl"), row["fn"])
    f = m.fn(row["fn"])
    if row["kind"] == "reach":
        return _check_reach(ctx, m, f, row, rule, cfg)
    code = CODES[row["code"]] if row.get("code") else None
    out_idx = _param(f, row["nowrite"], row) if row.get("nowrite") else None
    must_idx = _param(f, row["mustwrite"], row) if row.get("mustwrite") else None
    runs = expand(m, f, row)
    problems = []
    inst = {"row": row["id"], "function": row["fn"], "module": row.get("mod", "inl"), "runs": len(runs), "config": cfg,
            "requires": row.get("code", "non-zero code")}
    nrets = 0
    expect_zero = row.get("expect") == "zero"
    expect_true = row.get("expect") in ("one", "nonzero")
    if row.get("args") and row.get("call"):
        for cid in _calls(f, row, row["call"]):
            ci = f.insts[cid]
            for k, spec in enumerate(row["args"]):
                if spec is None:
                    continue
                o = ci.ops[k] if k < len(ci.ops) else None
                good = False
                if o is not None and "param" in spec and "field" not in spec:
                    good = o[0] == "a" and o[1] == _param(f, spec["param"], row)
                elif o is not None and "field" in spec:
                    good = o[0] == "i" and (o[1], 0) in _field_ids(f, row, spec["field"])
                if not good:
                    problems.append(("violation", "argument %d of the call to %s is not %s" % (k, row["call"], json.dumps(spec)), ci))
    for label, assume, assume_def, pairs, start in runs:
        pl = WritePlugin(m, f, out_idx if out_idx is not None else must_idx, stop_on_success=not (expect_zero or expect_true or row.get("expect_in")))
        ex = Explorer(f, assume=assume, assume_def=assume_def, plugin=pl, pairs=pairs, start_block=start or 0)
        ex.seed_dominating = True
        ex.run()
        nrets += len(ex.rets)
        if not ex.rets:
            problems.append(("broken", "under '%s' no return is reachable (engine lost the path)" % label, None))
            continue
        codes = set()
        for s, t, av in ex.rets:
            where = "%s via lines %s" % (t.where(), explore.trail_lines(f, s.trail))
            if av is None or av[0] != "int":
                if expect_zero:
                    problems.append(("violation", "with %s the predicate returns a value that does not depend on the failed condition (can be true) at %s" % (label, where), t))
                else:
                    problems.append(("broken", "under '%s' the value returned at %s cannot be evaluated" % (label, where), t))
                continue
            if row.get("expect_in"):
                allowed = _ivs(av[1], row["expect_in"])
                if minus(av, allowed)[2]:
                    problems.append(("violation", "with %s the function can return %s, outside the documented %s, at %s" % (label, explore.fmt(av), row["expect_in"], where), t))
                continue
            if expect_true:
                bad = (singleton(av) != 1) if row.get("expect") == "one" else (not is_empty(inter(av, const(0, av[1]))))
                if bad:
                    problems.append(("violation", "with %s the predicate can return %s at %s" % (label, explore.fmt(av), where), t))
                continue
            if expect_zero:
                if singleton(av) != 0:
                    kind_ = "violation"
                    extra = ""
                    if "attainable" in row:
                        # the path is a definite counterexample only when every branch on it is decided by the assumptions or depends on nothing but
                        # predicates listed as attainable both ways (applied to the function's own arguments)
                        unk = _undetermined_on_trail(f, s.trail, set(assume_def), set(row["attainable"]))
                        if unk:
                            kind_ = "broken"
                            extra = "; the path depends on %s, which the row does not know to be satisfiable for the inputs it speaks about" % ", ".join(unk[:3])
                    problems.append((kind_, "G1: with %s the function can return %s (must be 0) at %s%s" % (label, explore.fmt(av), where, extra), t))
                elif must_idx is not None and s.env.get(("flag", "wrote")) is None:
                    problems.append(("violation", "with %s the function returns success at %s without storing through '%s'" % (label, where, row["mustwrite"]), t))
                continue
            if not is_empty(inter(av, const(0, av[1]))):
                # the interval domain is non-relational: a success reached under a RANGE assumption is confirmed (or refuted) by splitting the range
                verdict, wit = _confirm_success(m, f, row, assume, assume_def, pairs, start, out_idx, must_idx)
                if verdict == "refuted":
                    sv0 = None
                    continue
                if verdict == "undecided":
                    problems.append(("broken", "under '%s' a successful return at %s is neither excluded nor confirmed for a concrete value (the conditions on the path correlate bits of the "
                                     "argument that the interval domain keeps apart)" % (label, where), t))
                    continue
                if singleton(av) != 0:
                    # the returned value is a set that merely contains 0 (e.g. loaded from memory the engine does not track): success is not excluded, but not shown either
                    problems.append(("broken", "under '%s' the value returned at %s is not determined (%s): success is neither excluded nor shown" % (label, where, explore.fmt(av)), t))
                    continue
                problems.append(("violation", "G1: with %s%s the function can return E_SUCCESS at %s" % (label, (" (e.g. %s)" % wit) if wit else "", where), t))
            sv = singleton(av)
            if sv is not None:
                codes.add(sv)
            else:
                codes.add(None)
            if out_idx is not None and must_idx is None and s.env.get(("flag", "wrote")) is not None:
                wi = f.insts[s.env[("flag", "wrote")]]
                problems.append(("violation", "G3: with %s a store through '%s' at %s happens before the return at %s" % (label, row["nowrite"], wi.where(), where), wi))
        if code is not None and code not in codes and None not in codes:
            problems.append(("violation", "G2: with %s the reachable returns yield %s, never the documented %s"
                             % (label, sorted(NAMES.get(c, str(c)) for c in codes), row["code"]), ex.rets[0][1]))
    # G4 converse at the boundaries of the accepted domain
    if (row.get("converse") or row.get("converse_values")) and row["kind"] == "range":
        k = _param(f, row["param"], row)
        w = _width(f, k)
        vals = list(row.get("converse_values", []))
        for lo, hi in (row["accept"] if row.get("converse") else []):
            vals += [lo, hi] if hi - lo > 40 or len(f.insts) > 3000 else list(range(lo, hi + 1))
        for v in sorted(set(vals)):
            a, d = {}, {}
            _given(m, f, row, a, d)
            a[("a", k)] = from_signed_ivs(w, [(v, v)])
            class StopOk:
                def on_inst(self, ex, s, i):
                    return None

                def on_ret(self, ex, s, t, av):
                    if av is None or av[0] != "int" or not is_empty(inter(av, const(0, av[1]))):
                        ex.stop = True
            ex = Explorer(f, assume=a, assume_def=d, plugin=StopOk()).run()
            can_succeed = any(av is None or av[0] != "int" or not is_empty(inter(av, const(0, av[1]))) for s, t, av in ex.rets)
            if not can_succeed:
                problems.append(("violation", "G4: %s = %d is inside the documented domain but every reachable return is an error (%s)"
                                 % (row["param"], v, sorted({explore.fmt(av) for s, t, av in ex.rets})), ex.rets[0][1] if ex.rets else None))
    viol = [p for p in problems if p[0] == "violation"]
    maybe = [p for p in problems if p[0] == "violation-maybe"]
    brk = [p for p in problems if p[0] == "broken"]
    if viol or maybe:
        p = (viol or maybe)[0]
        ctx.violation(rule, "%s" % row["id"], "%s: %s" % (row["fn"], p[1]) + (" (+%d more)" % (len(viol) + len(maybe) - 1) if len(viol) + len(maybe) > 1 else ""),
                      p[2].where() if p[2] is not None else f.where(), inst)
    elif brk:
        ctx.broken(rule, "row %s: %s" % (row["id"], brk[0][1]))
    else:
        ctx.ok(rule, inst, "explored under %d out-of-domain assumptions (%d returns): none can yield E_SUCCESS, %s is reachable in each%s%s"
               % (len(runs), nrets, row.get("code", "a non-zero code"), ", no store through '%s'" % row["nowrite"] if out_idx is not None else "",
                  ", boundary values of the domain can still succeed" if row.get("converse") or row.get("converse_values") else ""))
