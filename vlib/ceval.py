"""Exact evaluation of a loop-free function's expression DAG for given leaf values (R-CFORM).

Only pure integer/float operators, compares, selects, phis and forward branches are interpreted; calls are leaves
given by `models` (callee -> python function(args, mem) -> result).  A back edge, an unknown callee or an unknown
instruction makes the instance ANALYSIS-BROKEN: the value is then not a closed-form expression tree.
"""
import math, struct
from . import ir
from .build import AnalysisBroken


def _w(t):
    return int(t[1:]) if t.startswith("i") and t[1:].isdigit() else None


def _sg(v, w):
    v &= (1 << w) - 1
    return v - (1 << w) if v >> (w - 1) else v


class Eval:
    def __init__(self, m, f, args, models):
        self.m, self.f, self.args, self.models = m, f, args, models
        self.mem = {}          # (base key) -> value for scalar locals / out parameters
        self.vals = {}

    def val(self, o):
        k = o[0]
        if k == "c":
            return o[1]
        if k == "f":
            return float(o[1])
        if k == "a":
            return self.args[o[1]]
        if k == "i":
            if o[1] not in self.vals:
                raise AnalysisBroken("value %%%s used before it is defined on the evaluated path" % self.f.insts[o[1]].name)
            return self.vals[o[1]]
        if k == "null":
            return 0
        if k in ("undef", "poison"):
            return 0
        raise AnalysisBroken("operand kind %s not evaluable" % k)

    def ptr_key(self, o):
        base, path = ir.field_path(self.m, self.f, o)
        return (base, path)

    def table_load(self, i):
        """value of a load from a constant table at an evaluated index: (value,) or None"""
        from . import tables
        o = i.ops[0]
        idxs = []
        g = None
        depth = 0
        while depth < 8:
            depth += 1
            if o[0] == "i":
                d = self.f.insts[o[1]]
                if d.op == "bitcast":
                    o = d.ops[0]
                    continue
                if d.op == "getelementptr":
                    idxs = [self.val(x) for x in d.ops[2:]] + idxs
                    if self.val(d.ops[1]) != 0:
                        return None
                    o = d.ops[0]
                    continue
                return None
            if o[0] == "g":
                g = o[1]
                break
            if o[0] == "ce" and o[1] == "getelementptr":
                idxs = [x[1] for x in o[3][2:]] + idxs
                o = o[3][0]
                continue
            return None
        if g is None or g not in self.m.globals or not self.m.globals[g]["const"]:
            return None
        v = tables.Tables(self.m).get(g)
        for ix in idxs:
            if not isinstance(v, list) or not (0 <= ix < len(v)):
                raise AnalysisBroken("%s reads constant table %s out of range at %s" % (self.f.name, g, i.where()))
            v = v[ix]
        if isinstance(v, list):
            return None
        if isinstance(v, float):
            return (v,)
        w = _w(i.type) or 64
        return (v & ((1 << w) - 1),)

    def run(self, max_blocks=200):
        f = self.f
        b = f.blocks[0]
        pred = None
        visited = {}
        for _ in range(max_blocks * 20):
            # a counted loop over the (finite) parameter domain is unrolled; anything longer is not a closed form
            visited[b.idx] = visited.get(b.idx, 0) + 1
            if visited[b.idx] > 70:
                raise AnalysisBroken("%s has an unbounded loop on the evaluated path: not a closed-form expression" % f.name)
            newv = {}
            for p in b.phis():
                for o, pb in zip(p.ops, p.d["inc"]):
                    if pb == pred:
                        newv[p.id] = self.val(o)
                        break
            self.vals.update(newv)
            for i in b.insts:
                if i.op == "phi":
                    continue
                r = self.step(i)
                if r is not None:
                    kind, v = r
                    if kind == "ret":
                        return v
                    pred, b = b.idx, f.blocks[v]
                    break
        raise AnalysisBroken("evaluation of %s did not terminate" % f.name)

    def step(self, i):
        op = i.op
        w = _w(i.type)
        V = self.val
        if op in ("add", "sub", "mul", "and", "or", "xor", "shl", "lshr", "ashr", "sdiv", "udiv", "srem", "urem"):
            a, b = V(i.ops[0]), V(i.ops[1])
            m = (1 << w) - 1
            if op == "add": r = a + b
            elif op == "sub": r = a - b
            elif op == "mul": r = a * b
            elif op == "and": r = a & b
            elif op == "or": r = a | b
            elif op == "xor": r = a ^ b
            elif op == "shl": r = a << b
            elif op == "lshr": r = (a & m) >> b
            elif op == "ashr": r = _sg(a, w) >> b
            elif op == "udiv": r = (a & m) // (b & m)
            elif op == "urem": r = (a & m) % (b & m)
            else:
                x, y = _sg(a, w), _sg(b, w)
                if y == 0:
                    raise AnalysisBroken("division by zero while evaluating %s" % self.f.name)
                q = abs(x) // abs(y)
                q = -q if (x < 0) != (y < 0) else q
                r = q if op == "sdiv" else x - q * y
            self.vals[i.id] = r & m
        elif op in ("fadd", "fsub", "fmul", "fdiv"):
            a, b = V(i.ops[0]), V(i.ops[1])
            self.vals[i.id] = {"fadd": a + b, "fsub": a - b, "fmul": a * b}.get(op, None) if op != "fdiv" else a / b
        elif op in ("sext", "zext", "trunc"):
            a = V(i.ops[0])
            sw = _w(self.f.insts[i.ops[0][1]].type if i.ops[0][0] == "i" else self.f.args[i.ops[0][1]]["type"] if i.ops[0][0] == "a" else "i%d" % i.ops[0][2])
            if op == "sext":
                a = _sg(a, sw)
            self.vals[i.id] = a & ((1 << w) - 1)
        elif op in ("sitofp", "uitofp"):
            a = V(i.ops[0])
            sw = _w(self.f.insts[i.ops[0][1]].type) if i.ops[0][0] == "i" else 64
            self.vals[i.id] = float(_sg(a, sw) if op == "sitofp" else a)
        elif op == "icmp":
            a, b = V(i.ops[0]), V(i.ops[1])
            ow = _w(self.f.insts[i.ops[0][1]].type) if i.ops[0][0] == "i" else (_w(self.f.args[i.ops[0][1]]["type"]) if i.ops[0][0] == "a" else i.ops[0][2] if i.ops[0][0] == "c" else 64)
            ow = ow or 64
            p = i.pred
            if p[0] == "s":
                a, b = _sg(a, ow), _sg(b, ow)
            else:
                a, b = a & ((1 << ow) - 1), b & ((1 << ow) - 1)
            self.vals[i.id] = int({"eq": a == b, "ne": a != b, "lt": a < b, "le": a <= b, "gt": a > b, "ge": a >= b}[p if p in ("eq", "ne") else p[1:]])
        elif op == "select":
            self.vals[i.id] = V(i.ops[1]) if V(i.ops[0]) else V(i.ops[2])
        elif op in ("bitcast", "getelementptr", "alloca", "freeze"):
            self.vals[i.id] = ("ptr", i.id)
        elif op == "load":
            k = self.ptr_key(i.ops[0])
            tv = self.table_load(i) if k not in self.mem else None
            if tv is not None:
                self.vals[i.id] = tv[0]
            elif k not in self.mem:
                mk = self.models.get(("load",) + (k[0],))
                if mk is None:
                    raise AnalysisBroken("%s loads memory that no model defines (%s at %s)" % (self.f.name, k, i.where()))
                self.vals[i.id] = mk(k)
            else:
                self.vals[i.id] = self.mem[k]
        elif op == "store":
            self.mem[self.ptr_key(i.ops[1])] = V(i.ops[0])
        elif op == "call":
            cal = i.callee or ""
            if cal.startswith("llvm.dbg") or cal.startswith("llvm.lifetime"):
                return None
            md = self.models.get(cal)
            if md is None:
                # a defined helper that takes and returns scalars and touches no memory is part of the expression tree: evaluate it in place
                g = self.m.functions.get(cal)
                if g is not None and not g.decl and "readnone" in (g.attrs or []) and not any(a["type"].endswith("*") for a in g.args) and getattr(self, "depth", 0) < 8:
                    sub = Eval(self.m, g, [self.val(o) for o in i.ops[:len(g.args)]], self.models)
                    sub.depth = getattr(self, "depth", 0) + 1
                    self.vals[i.id] = sub.run()
                    return None
                raise AnalysisBroken("%s calls %s, for which the closed-form instance has no model (the value is not the documented expression tree)" % (self.f.name, cal))
            argv = [self.val(o) if o[0] != "i" or self.f.insts[o[1]].type[-1] != "*" else self.ptr_key(o) for o in i.ops]
            argv = [self.ptr_key(o) if (o[0] == "a" and self.f.args[o[1]]["type"].endswith("*")) else v for o, v in zip(i.ops, argv)]
            self.vals[i.id] = md(argv, self.mem)
        elif op == "br":
            if len(i.ops) == 1:
                return ("br", i.ops[0][1])
            return ("br", i.ops[2][1] if V(i.ops[0]) else i.ops[1][1])
        elif op == "switch":
            v = V(i.ops[0])
            for cv, dest in i.d["cases"]:
                if cv == v:
                    return ("br", dest)
            return ("br", i.d["default"])
        elif op == "ret":
            return ("ret", V(i.ops[0]) if i.ops else None)
        else:
            raise AnalysisBroken("instruction '%s' at %s is outside the closed-form fragment" % (op, i.where()))
        return None
