"""Check context: obligations, violations, known findings, evidence, replay (DESIGN.md 1.1, 5)."""
import hashlib, json, os, re, sys, time
from . import build
from .build import AnalysisBroken

VERIF = build.VERIF
KNOWN = os.path.join(VERIF, "known_findings.txt")


def load_known():
    """known_findings.txt lines:
       known: property=<id> key=<key> <text>
       fixed: property=<id> <commit> <text>        (suppresses nothing)
    """
    known = {}
    if os.path.exists(KNOWN):
        for ln in open(KNOWN):
            ln = ln.strip()
            m = re.match(r"known:\s+property=(\S+)\s+key=(\S+)\s*(.*)", ln)
            if m:
                known.setdefault(m.group(1), {})[m.group(2)] = m.group(3)
    return known


class Ctx:
    def __init__(self, pid, tier="quick", seed=0, level="other"):
        self.pid = pid
        self.tier = tier
        self.seed = seed
        self.level = level
        self.t0 = time.time()
        self.obligations = []      # dicts: rule, instance, ok, detail
        self.violations = []       # dicts
        self.known_hits = []
        self.brokens = []
        self.samples = []
        self.notes = {}
        self.assumptions = []
        self.undecided = []
        self.known = load_known().get(pid, {})
        self.explanation = ""
        self.trusted = []
        self.rules_applied = {}
        self.replay_only = None   # key of the single instance to re-run
        self.quiet = False

    # ------------------------------------------------------------ recording
    def ok(self, rule, instance, detail=None):
        self.obligations.append({"rule": rule, "instance": instance, "ok": True})
        self.rules_applied[rule] = self.rules_applied.get(rule, 0) + 1
        if detail is not None and len([s for s in self.samples if s.get("rule") == rule]) < 3:
            self.samples.append({"rule": rule, "instance": instance, "discharged_by": detail})

    def violation(self, rule, key, msg, where="", data=None):
        """A definite violation.  key identifies the instance (never a line number)."""
        self.obligations.append({"rule": rule, "instance": key, "ok": False})
        self.rules_applied[rule] = self.rules_applied.get(rule, 0) + 1
        fullkey = "%s:%s" % (rule, key)
        rec = {"property": self.pid, "rule": rule, "key": fullkey, "message": msg, "where": where, "data": data}
        if fullkey in self.known:
            self.known_hits.append(rec)
            print("KNOWN-FINDING: property=%s %s (%s) %s" % (self.pid, fullkey, where, msg))
            return
        self.violations.append(rec)

    def broken(self, rule, msg):
        self.brokens.append({"rule": rule, "message": msg})

    def undecided_site(self, rule, what):
        self.undecided.append({"rule": rule, "site": what})

    def note(self, k, v):
        self.notes[k] = v

    def floor(self, rule, what, n, minimum):
        """anti-vacuity: a rule that matches fewer instances than confirmed by hand is analysis-broken"""
        if n < minimum:
            self.broken(rule, "%s: matched %d instances, floor is %d (anchor vanished or idiom changed)" % (what, n, minimum))

    # ------------------------------------------------------------ finishing
    def finish(self):
        wall = round(time.time() - self.t0, 2)
        nob = len(self.obligations)
        ndis = len([o for o in self.obligations if o["ok"]])
        code = 0
        rdir = os.path.join(VERIF, "replays") if not getattr(self, "no_evidence", False) else os.path.join(VERIF, ".work", "replays-scratch")
        os.makedirs(rdir, exist_ok=True)
        for v in self.violations:
            h = hashlib.sha1(v["key"].encode()).hexdigest()[:10]
            rp = os.path.join(rdir, "%s-%s-%s.json" % (self.pid, v["rule"], h))
            json.dump(v, open(rp, "w"), indent=1, default=str)
            print("%s: %s [%s] %s" % (v["where"] or "?", v["rule"], v["key"], v["message"]))
            print("VIOLATION property=%s replay=%s" % (self.pid, rp))
            code = 1
        for b in self.brokens:
            print("ANALYSIS-BROKEN property=%s rule=%s: %s" % (self.pid, b["rule"], b["message"]))
        if self.brokens and code == 0:
            code = 2
        if self.replay_only or getattr(self, "no_evidence", False):
            print("%s: %d obligations, %d discharged, %d violations, %d known, %d undecided, %d analysis-broken (no evidence written)"
                  % (self.pid, nob, ndis, len(self.violations), len(self.known_hits), len(self.undecided), len(self.brokens)))
            return code
        level = self.level
        if code != 0 and level == "proof":
            level = "other"
        rules_txt = ", ".join("%s×%d" % kv for kv in sorted(self.rules_applied.items()))
        cov = {
            "explanation": self.explanation + " | rule instances this run: " + rules_txt,
            "obligations": nob,
            "discharged": ndis,
            "evaluations": max(nob, 1),
            "distinct_nontrivial": max(len({json.dumps(o["instance"], default=str, sort_keys=True) + o["rule"] for o in self.obligations}), 0),
            "rule": "one obligation per rule instance found by scanning the IR/AST of /repo's current sources; "
                    "distinct = distinct (rule, instance) pairs; every instance constrains code, none is trivial",
            "samples": self.samples[:12] or [{"note": "no obligation produced"}],
            "checker_cmd": "bin/check %s --tier %s" % (self.pid, self.tier),
            "trusted_base": self.trusted or ["clang-14 front end and the fixed opt-14 pass list (mem2reg, sroa, early-cse, instcombine, simplifycfg, inline, function-attrs)", "tools/irdump.cc exporter", "vlib rule engines"],
            "exhaustive": True,
            "rules": self.rules_applied,
            "undecided_sites": self.undecided[:200],
            "undecided_count": len(self.undecided),
            "known_findings_hit": [k["key"] for k in self.known_hits],
            "analysis_broken": self.brokens,
        }
        cov.update(self.notes)
        ev = {
            "property_id": self.pid, "tier": self.tier, "seed": self.seed, "level": level,
            "coverage": cov, "assumptions": self.assumptions, "wall_s": wall,
            "violations": len(self.violations),
        }
        os.makedirs(os.path.join(VERIF, "evidence"), exist_ok=True)
        with open(os.path.join(VERIF, "evidence", self.pid + ".json"), "w") as f:
            json.dump(ev, f, indent=1, default=str)
        if not self.quiet:
            print("%s: %d obligations, %d discharged, %d violations, %d known findings, %d undecided sites, %d analysis-broken; %.1fs [%s]"
                  % (self.pid, nob, ndis, len(self.violations), len(self.known_hits), len(self.undecided), len(self.brokens), wall, rules_txt))
        return code


# ---------------------------------------------------------------- result cache for expensive, deterministic rule instances
class Recorder:
    """records the obligations a rule instance reports so that they can be replayed into any property's context"""
    def __init__(self, tier="quick"):
        self.tier = tier
        self.events = []

    def ok(self, rule, instance, detail=None):
        self.events.append(["ok", rule, instance, detail])

    def violation(self, rule, key, msg, where="", data=None):
        self.events.append(["violation", rule, key, msg, where, data])

    def broken(self, rule, msg):
        self.events.append(["broken", rule, msg])

    def undecided_site(self, rule, what):
        self.events.append(["undecided", rule, what])

    def note(self, k, v):
        self.events.append(["note", k, v])


def replay(ctx, events):
    for e in events:
        if e[0] == "ok":
            ctx.ok(e[1], e[2], e[3])
        elif e[0] == "violation":
            ctx.violation(e[1], e[2], e[3], e[4], e[5])
        elif e[0] == "broken":
            ctx.broken(e[1], e[2])
        elif e[0] == "undecided":
            ctx.undecided_site(e[1], e[2])
        elif e[0] == "note":
            ctx.note(e[1], e[2])


_ENGINE_HASH = None


def engine_hash():
    """hash of the rule engines themselves: an edit to vlib/ or rules/ invalidates cached results"""
    global _ENGINE_HASH
    if _ENGINE_HASH is None:
        h = hashlib.sha256()
        for sub in ("vlib", "rules"):
            d = os.path.join(VERIF, sub)
            for fn in sorted(os.listdir(d)):
                p = os.path.join(d, fn)
                if os.path.isfile(p) and not fn.endswith(".pyc"):
                    h.update(fn.encode()); h.update(open(p, "rb").read())
        _ENGINE_HASH = h.hexdigest()[:16]
    return _ENGINE_HASH


def cached(module_path, name, tier, fn):
    """events of a deterministic rule instance for the module at module_path (the cache lives next to the module and dies with the
    build directory whenever /repo's sources change; it is additionally keyed by the engine's own sources)"""
    d = os.path.join(os.path.dirname(module_path), "rcache")
    f = os.path.join(d, "%s-%s-%s.json" % (re.sub(r"[^A-Za-z0-9_.-]", "_", name), tier, engine_hash()))
    if os.path.exists(f):
        try:
            return json.load(open(f))
        except Exception:
            pass
    rec = Recorder(tier)
    fn(rec)
    ev = json.loads(json.dumps(rec.events, default=str))
    try:
        os.makedirs(d, exist_ok=True)
        tmp = f + ".%d.tmp" % os.getpid()
        json.dump(ev, open(tmp, "w"))
        os.replace(tmp, f)
    except OSError:
        pass
    return ev
