"""R-OWN: ownership protocol of blocks that escape into iterator / linked structures (DESIGN.md 2.4; C15, C16, C17)."""
from . import ir, explore
from .explore import Explorer, singleton
from .build import AnalysisBroken
from .rules_alloc import allocator_names, gep_field, call_graph, reachable

OWNER_STRUCT, OWNER_FIELD = "IterCellsPolygonCompact", "_bboxes"


def _loc(m, f, o):
    base, path = ir.field_path(m, f, o)
    return base, path


def _is_field(path, struct, field):
    return bool(path) and path[-1][0] == "f" and path[-1][1] == struct and path[-1][2] == field


def _obj_of(base, path):
    """identity of the iterator object a field path belongs to: (base, path without the last field)"""
    return (base, path[:-1])


class _Flags:
    """base plugin keeping boolean flags in env under ('own', name)"""

    def on_inst(self, ex, s, i):
        return None


def find_destroyers(m, cfg):
    """functions that free a value loaded from OWNER_STRUCT.OWNER_FIELD"""
    names = allocator_names(cfg)
    out = {}
    for f in m.defined():
        for i in f.all_insts():
            if i.op == "call" and i.callee in names["free"]:
                o = i.ops[0]
                # through bitcast to the load
                while o[0] == "i" and f.insts[o[1]].op == "bitcast":
                    o = f.insts[o[1]].ops[0]
                if o[0] == "i" and f.insts[o[1]].op == "load":
                    base, path = _loc(m, f, f.insts[o[1]].ops[0])
                    if _is_field(path, OWNER_STRUCT, OWNER_FIELD):
                        out.setdefault(f.name, []).append((i, _obj_of(base, path)))
    return out


def check_owner(ctx, m, cfg, rule="R-OWN"):
    names = allocator_names(cfg)
    destroyers = find_destroyers(m, cfg)
    if not destroyers:
        ctx.broken(rule, "no function frees %s.%s (destroyer vanished)" % (OWNER_STRUCT, OWNER_FIELD))
        return
    # functions that (transitively, on every path) run a destroyer on their first iterator argument
    must_destroy = _must_destroy_closure(m, set(destroyers))
    ctx.note("iterator_destroyers_" + cfg, sorted(destroyers))
    ctx.note("iterator_must_destroy_" + cfg, sorted(must_destroy))

    # E1: after free(obj._bboxes) a NULL is stored to obj._bboxes on every path to a return
    for fn, frees in destroyers.items():
        f = m.fn(fn)

        class P:
            def on_inst(self, ex, s, i):
                if i.op == "call" and i.callee in names["free"]:
                    for fi, obj in frees:
                        if fi.id == i.id:
                            s.env[("own", "dangling")] = True
                if i.op == "store":
                    base, path = _loc(m, f, i.ops[1])
                    if _is_field(path, OWNER_STRUCT, OWNER_FIELD):
                        v = ex.eval(i.ops[0], s.env)
                        if v is not None and v[0] == "ptr" and v[2] == "null":
                            s.env.pop(("own", "dangling"), None)
                return None
        ex = Explorer(f, plugin=P()).run()
        bad = [(s, t) for s, t, av in ex.rets if s.env.get(("own", "dangling"))]
        inst = {"rule": "E1", "function": fn, "config": cfg}
        if bad:
            s, t = bad[0]
            ctx.violation(rule, "E1:dangling:%s" % fn,
                          "%s frees %s.%s but returns at %s without storing NULL to the field (a second destroy frees the block again); path lines %s"
                          % (fn, OWNER_STRUCT, OWNER_FIELD, t.where(), explore.trail_lines(f, s.trail)), frees[0][0].where(), inst)
        else:
            ctx.ok(rule, inst, "every path from free(%s) to a return stores NULL to the field (%d returns)" % (OWNER_FIELD, len(ex.rets)))

    # E1b: no other function frees or overwrites the owned field while it may hold a block
    for f in m.defined():
        for i in f.all_insts():
            if i.op == "store":
                base, path = _loc(m, f, i.ops[1])
                if _is_field(path, OWNER_STRUCT, OWNER_FIELD):
                    if f.name in destroyers:
                        continue
                    # allowed: the initialiser storing the fresh allocation / NULL into a new object
                    v = i.ops[0]
                    src = v
                    while src[0] == "i" and f.insts[src[1]].op == "bitcast":
                        src = f.insts[src[1]].ops[0]
                    fresh = src[0] == "null" or (src[0] == "i" and f.insts[src[1]].op == "call" and f.insts[src[1]].callee in names["alloc"])
                    inst = {"rule": "E1b", "function": f.name, "at": i.where(), "config": cfg}
                    newobj = (base[0] == "i" and f.insts[base[1]].op == "alloca") or (base[0] == "a" and "sret" in f.args[base[1]]["attrs"])
                    if fresh and newobj:
                        ctx.ok(rule, inst, "store of a fresh allocation / NULL into a newly created local iterator")
                    else:
                        ctx.violation(rule, "E1b:overwrite:%s" % f.name,
                                      "%s overwrites %s.%s outside the destroyer (the previous block can no longer be released)" % (f.name, OWNER_STRUCT, OWNER_FIELD),
                                      i.where(), inst)

    # E4/E6: a possibly non-zero error is stored to the iterator only after a destroy on every path
    n_e6 = 0
    for f in m.defined():
        stores = []
        for i in f.all_insts():
            if i.op == "store":
                base, path = _loc(m, f, i.ops[1])
                if _is_field(path, OWNER_STRUCT, "error"):
                    stores.append(i)
        if not stores:
            continue

        class P6:
            def __init__(self):
                self.bad = []

            def on_inst(self, ex, s, i):
                if i.op == "call" and i.callee in must_destroy:
                    s.env[("own", "destroyed")] = True
                if i.op == "store" and i in stores:
                    v = ex.eval(i.ops[0], s.env)
                    if singleton(v) != 0 and not s.env.get(("own", "destroyed")):
                        # copying the error of another iterator object is fine
                        self.bad.append((i, s))
                return None
        p6 = P6()
        Explorer(f, plugin=p6).run()
        for i in stores:
            n_e6 += 1
            inst = {"rule": "E6", "function": f.name, "at": i.where(), "config": cfg}
            hit = [b for b in p6.bad if b[0].id == i.id]
            if hit and not _whole_object_init(m, f, i):
                ctx.violation(rule, "E6:error-without-destroy:%s" % f.name,
                              "%s stores a possibly non-zero error into %s.error on a path that has not released the bounding boxes (iterator reports failure while still owning memory)"
                              % (f.name, OWNER_STRUCT), i.where(), inst)
            else:
                ctx.ok(rule, inst, "error field written with 0, or only after a destroyer ran on every path")
    ctx.floor(rule, "stores to %s.error" % OWNER_STRUCT, n_e6, 2)

    # E3: step functions: every return leaves the iterator exhausted-at-entry, holding a non-zero cell, or destroyed
    steppers = _steppers(m, must_destroy)
    for fn in sorted(steppers):
        f = m.fn(fn)
        _check_stepper(ctx, m, f, must_destroy, cfg, rule)
    ctx.floor(rule, "iterator step functions", len(steppers), 1)

    # E5: creators: a local iterator object must be exhausted, errored, destroyed or handed to the caller at every return
    ncre = 0
    for f in m.defined():
        objs = [i for i in f.all_insts() if i.op == "alloca" and i.d.get("aty", "") in ("%struct.IterCellsPolygonCompact", "%struct.IterCellsPolygon")]
        for a in objs:
            ncre += 1
            _check_creator(ctx, m, f, a, must_destroy, cfg, rule)
    ctx.floor(rule, "local iterator objects", ncre, 3)


def _whole_object_init(m, f, store):
    """store into a freshly created local object (aggregate initialiser)"""
    base, path = _loc(m, f, store.ops[1])
    return base[0] == "i" and f.insts[base[1]].op == "alloca" and singleton_const(store.ops[0]) == 0


def singleton_const(o):
    return o[1] if o[0] == "c" else None


def _must_destroy_closure(m, destroyers):
    """functions whose every path calls a destroyer (or a member) on an iterator they received"""
    must = set(destroyers)
    changed = True
    while changed:
        changed = False
        for f in m.defined():
            if f.name in must or not f.args:
                continue
            if not any(i.op == "call" and i.callee in must for i in f.all_insts()):
                continue

            class P:
                def on_inst(self, ex, s, i):
                    if i.op == "call" and i.callee in must:
                        s.env[("own", "destroyed")] = True
                    return None
            try:
                ex = Explorer(f, plugin=P(), keep_trail=False).run()
            except AnalysisBroken:
                continue
            if ex.rets and all(s.env.get(("own", "destroyed")) for s, t, av in ex.rets):
                must.add(f.name)
                changed = True
    return must


def _steppers(m, must_destroy):
    """functions taking an iterator pointer that store to its cell field and are not destroyers themselves"""
    out = set()
    for f in m.defined():
        if f.name in must_destroy or not f.args:
            continue
        if f.args[0]["type"] != "%struct.IterCellsPolygonCompact*" or "sret" in f.args[0]["attrs"]:
            continue
        for i in f.all_insts():
            if i.op == "store":
                base, path = _loc(m, f, i.ops[1])
                if base == ("a", 0) and _is_field(path, OWNER_STRUCT, "cell"):
                    out.add(f.name)
    return out


def _check_stepper(ctx, m, f, must_destroy, cfg, rule):
    entry_loads = set()
    for i in f.all_insts():
        if i.op == "load":
            base, path = _loc(m, f, i.ops[0])
            if base == ("a", 0) and _is_field(path, OWNER_STRUCT, "cell"):
                entry_loads.add(i.id)

    class P:
        def on_inst(self, ex, s, i):
            if i.op == "call" and i.callee in must_destroy and i.ops and i.ops[0] == ["a", 0]:
                s.env[("own", "st")] = "destroyed"
            elif i.op == "store":
                base, path = _loc(m, f, i.ops[1])
                if base == ("a", 0) and _is_field(path, OWNER_STRUCT, "cell"):
                    v = ex.eval(i.ops[0], s.env)
                    nonzero = v is not None and v[0] == "int" and explore.is_empty(explore.inter(v, explore.const(0, v[1])))
                    s.env[("own", "st")] = "cellset" if nonzero else "cell-maybe-zero"
            return None

        def on_refine_int(self, ex, key, av, e):
            if key[0] == "i" and key[1] in entry_loads and singleton(av) == 0 and ("own", "st") not in e:
                e[("own", "st")] = "exhausted"
    ex = Explorer(f, plugin=P()).run()
    bad = []
    for s, t, av in ex.rets:
        st = s.env.get(("own", "st"))
        if st in ("destroyed", "cellset", "exhausted"):
            continue
        bad.append((s, t, st))
    inst = {"rule": "E3", "function": f.name, "config": cfg}
    if bad:
        s, t, st = bad[0]
        ctx.violation(rule, "E3:step-exit:%s" % f.name,
                      "%s can return at %s with the iterator neither exhausted at entry, nor advanced to a non-zero cell, nor destroyed (state: %s) - its bounding boxes are never released; path lines %s"
                      % (f.name, t.where(), st, explore.trail_lines(f, s.trail)), t.where(), inst)
    else:
        ctx.ok(rule, inst, "all %d returns: exhausted at entry, or non-zero cell stored, or destroyer/error helper called" % len(ex.rets))


def _check_creator(ctx, m, f, a, must_destroy, cfg, rule):
    """local iterator object `a` (alloca).  States: fresh -> live (after an init/step call or aggregate copy)
    -> released (cell==0 seen, error!=0 seen, destroy call) | moved (copied out to the caller)."""
    aty = a.d["aty"]
    sname = aty[8:]
    cell_loads, err_loads = {}, {}
    for i in f.all_insts():
        if i.op == "load":
            base, path = _loc(m, f, i.ops[0])
            if base == ("i", a.id) and path and path[-1][0] == "f":
                # only the object's own top-level cell/error decide its state
                if len(path) == 1 and path[-1][2] == "cell":
                    cell_loads[i.id] = True
                if len(path) == 1 and path[-1][2] == "error":
                    err_loads[i.id] = True
    me = ("i", a.id)

    def arg_is_obj(o):
        base, path = _loc(m, f, o)
        return base == me

    class P:
        def on_inst(self, ex, s, i):
            k = ("own", "obj")
            if i.op == "call" and i.callee and not i.callee.startswith("llvm.lifetime") and not i.callee.startswith("llvm.dbg"):
                hits = [idx for idx, o in enumerate(i.ops) if o[0] in ("i",) and arg_is_obj(o)]
                if hits:
                    if i.callee.startswith("llvm.memcpy"):
                        if 0 in hits:
                            s.env[k] = "live"       # object filled from another iterator value
                        elif s.env.get(k) == "live":
                            s.env[k] = "moved"      # copied out (returned by value / embedded into the result)
                    elif i.callee in must_destroy:
                        s.env[k] = "released"
                    else:
                        s.env[k] = "live"           # init (sret) or step: may own memory again
                        s.env.pop(("own", "cellzero"), None)
            return None

        def on_refine_int(self, ex, key, av, e):
            if key[0] == "i" and key[1] in cell_loads and singleton(av) == 0 and e.get(("own", "obj")) == "live":
                e[("own", "obj")] = "released"
            if key[0] == "i" and key[1] in err_loads and explore.is_empty(explore.inter(av, explore.const(0, av[1]))) and e.get(("own", "obj")) == "live":
                e[("own", "obj")] = "released"
    ex = Explorer(f, plugin=P()).run()
    bad = [(s, t) for s, t, av in ex.rets if s.env.get(("own", "obj")) == "live"]
    inst = {"rule": "E5", "function": f.name, "object": a.name or str(a.id), "type": sname, "config": cfg}
    if bad:
        s, t = bad[0]
        ctx.violation(rule, "E5:iterator-not-released:%s:%s" % (f.name, a.name or sname),
                      "%s can return at %s while its local %s '%s' may still own bounding boxes (no cell==0 exit, no error!=0 exit, no destroy on this path; lines %s)"
                      % (f.name, t.where(), sname, a.name, explore.trail_lines(f, s.trail)), t.where(), inst)
    else:
        ctx.ok(rule, inst, "every one of %d returns is reached with the iterator exhausted (cell==0), failed (error!=0), destroyed, or moved to the caller" % len(ex.rets))
