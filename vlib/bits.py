"""Bit-field recognition: which SSA values are exactly  ((arg >> off) & (2^w - 1)) << shl  of a function argument.

Used to name terms such as RES(h), BC(h), MODE(h), RESERVED(h) semantically (mask-and-shift with the
field's offset and width) instead of by spelling.
"""
from . import ir


def slices(f, roots=None):
    """returns {inst id: (root, off, w, shl)} for integer instructions that are a bit slice of a root.
    roots: iterable of value keys treated as roots (default: all integer arguments). A root key is ('a', idx) or ('i', id)."""
    if roots is None:
        roots = [("a", k) for k, a in enumerate(f.args) if a["type"].startswith("i") and a["type"][1:].isdigit()]
    roots = set(roots)
    memo = {}

    def width_of(key):
        t = f.args[key[1]]["type"] if key[0] == "a" else f.insts[key[1]].type
        return int(t[1:])

    def get(o, depth=0):
        if o[0] not in ("i", "a"):
            return None
        key = (o[0], o[1])
        if key in roots:
            return (key, 0, width_of(key), 0)
        if o[0] == "a":
            return None
        if key in memo:
            return memo[key]
        memo[key] = None
        if depth > 40:
            return None
        i = f.insts[o[1]]
        r = None
        if i.op == "lshr" and i.ops[1][0] == "c":
            s = get(i.ops[0], depth + 1)
            c = i.ops[1][1]
            if s:
                root, off, w, shl = s
                if shl >= c:
                    r = (root, off, w, shl - c)
                else:
                    d = c - shl
                    if d < w:
                        r = (root, off + d, w - d, 0)
        elif i.op == "shl" and i.ops[1][0] == "c":
            s = get(i.ops[0], depth + 1)
            if s:
                root, off, w, shl = s
                bits = int(i.type[1:])
                if shl + i.ops[1][1] + w <= bits:
                    r = (root, off, w, shl + i.ops[1][1])
        elif i.op == "and":
            for a, b in ((0, 1), (1, 0)):
                if i.ops[b][0] == "c":
                    s = get(i.ops[a], depth + 1)
                    mval = i.ops[b][1]
                    if s and mval:
                        root, off, w, shl = s
                        # mask must be contiguous ones
                        low = (mval & -mval).bit_length() - 1
                        n = (mval >> low)
                        if n & (n + 1) == 0:
                            n = n.bit_length()
                            # slice occupies bits [shl, shl+w); mask keeps [low, low+n)
                            lo = max(shl, low)
                            hi = min(shl + w, low + n)
                            if hi > lo:
                                r = (root, off + (lo - shl), hi - lo, lo)
        elif i.op == "trunc":
            s = get(i.ops[0], depth + 1)
            if s:
                root, off, w, shl = s
                bits = int(i.type[1:])
                if shl < bits:
                    r = (root, off, min(w, bits - shl), shl)
        elif i.op in ("zext",):
            r = get(i.ops[0], depth + 1)
        elif i.op == "sext":
            s = get(i.ops[0], depth + 1)
            if s:
                src_bits = int(f.insts[i.ops[0][1]].type[1:]) if i.ops[0][0] == "i" else int(f.args[i.ops[0][1]]["type"][1:])
                if s[3] + s[2] < src_bits:
                    r = s
        memo[key] = r
        return r

    out = {}
    for i in f.all_insts():
        if i.type.startswith("i") and i.type[1:].isdigit() and i.op in ("lshr", "shl", "and", "trunc", "zext", "sext"):
            s = get(("i", i.id))
            if s:
                out[i.id] = s
    return out


def field_values(f, root, off, w):
    """[(instruction id, shl)] whose value is exactly field [off, off+w) of root, shifted left by shl"""
    sl = slices(f, [root])
    return [(iid, shl) for iid, (r, o, ww, shl) in sl.items() if r == root and o == off and ww == w]
