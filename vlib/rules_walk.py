"""R-WALK: the "unsafe" ring walks test every cell for being a pentagon before they step off it (C05).

gridRingUnsafe / gridDiskDistancesUnsafe walk the grid in place: origin = neighbour(origin, direction).  A step that starts on a
pentagon is distorted, and the functions promise `either an error or exactly the ring / disk`; they keep that promise by testing
each cell they arrive at with isPentagon before the next step (the closing cell of a ring, which is not stepped off, is covered by
the final closure comparison).  Decided here, as a typestate on the control skeleton of the success path: the integer control flow is
followed for k = 1..KMAX with the two callees replaced by effect summaries (h3NeighborRotations: success, writes a fresh opaque cell
to its out-parameter; isPentagon: "no", and marks its argument as tested):
  W1  the cell passed to h3NeighborRotations as the origin of a step has been tested;
  W2  every cell stored to the output array has been tested by the time the function returns after completing its loops.
The cells are opaque tokens - nothing of the grid is computed.  Bounded in k (the loop structure does not depend on k beyond the trip
counts)."""
from . import lanes
from .lanes import Shape
from .build import AnalysisBroken

RULE = "R-WALK"
KMAX = 5
KMAX_THOROUGH = 12
FUNCS = [("gridRingUnsafe", "origin", "k", "out", None), ("gridDiskDistancesUnsafe", "origin", "k", "out", "distances")]


def check(ctx, m, cfg):
    kmax = KMAX_THOROUGH if getattr(ctx, "tier", "quick") == "thorough" else KMAX
    n = 0
    for fname, on, kn, outn, extra in FUNCS:
        f = m.fn(fname)
        ok_, kk, outk = f.arg_index(on), f.arg_index(kn), f.arg_index(outn)
        if None in (ok_, kk, outk):
            ctx.broken(RULE, "%s: parameters %s/%s/%s not found" % (fname, on, kn, outn))
            continue
        callees = {i.callee for i in f.all_insts() if i.op == "call"}
        if "h3NeighborRotations" not in callees or "isPentagon" not in callees:
            ctx.broken(RULE, "%s no longer walks with h3NeighborRotations / isPentagon" % fname)
            continue
        n += 1
        bad = None
        steps_total = 0
        try:
            for k in range(1, kmax + 1):
                st = {"next": 1000, "tested": set(), "viol": None, "steps": 0}

                def nbr(ev, cargs, al, inst, st=st):
                    cell = cargs[0]
                    st["steps"] += 1
                    if isinstance(cell, int) and cell not in st["tested"] and st["viol"] is None:
                        st["viol"] = ("W1", inst, st["steps"])
                    st["next"] += 1
                    outp = cargs[3]
                    if not (isinstance(outp, tuple) and outp[0] == "ptr"):
                        raise Shape("h3NeighborRotations out-parameter is not a tracked pointer")
                    ev._walk_mem = (outp[1], outp[2], st["next"])
                    return 0

                ev = lanes.Evaluator(m)
                ev.models["isPentagon"] = lambda ev_, cargs, al, inst, st=st: (st["tested"].add(cargs[0]) or 0)
                # h3NeighborRotations writes memory: run it as a model that returns 0 and performs the store through a wrapper
                ev.models["h3NeighborRotations"] = nbr
                orig_step = ev.step

                def step(f_, inst, stt, args_, depth, ev=ev, orig_step=orig_step):
                    res = orig_step(f_, inst, stt, args_, depth)
                    wm = getattr(ev, "_walk_mem", None)
                    if wm is not None and inst.op == "call" and inst.callee == "h3NeighborRotations":
                        ev._walk_mem = None
                        res = [(e, c, ev.mem_store(mem, wm[0], wm[1], wm[2], 8, inst), al) for (e, c, mem, al) in res]
                    return res
                ev.step = step
                args = [None] * len(f.args)
                args[ok_], args[kk], args[outk] = 999, k, lanes.argptr(outk)
                if extra is not None:
                    args[f.arg_index(extra)] = 0            # distances = NULL
                paths = ev.run(fname, args)
                steps_total += st["steps"]
                if st["viol"]:
                    kind, inst, nstep = st["viol"]
                    bad = ("%s(k=%d): step %d of the walk starts from a cell that was not tested with isPentagon (a pentagon there distorts the walk and the result is "
                           "returned as success)" % (fname, k, nstep), inst.where())
                    break
                for p in paths:
                    stored = [v[0] for (b, off), v in p.mem.items() if b == ("arg", outk)]
                    untested = [c for c in stored if isinstance(c, int) and c not in st["tested"]]
                    if untested and st["steps"] >= 6 * k:
                        bad = ("%s(k=%d): %d of the %d cells written to %s were never tested with isPentagon although all loops completed" % (fname, k, len(untested), len(stored), outn), f.where())
                        break
                if bad:
                    break
        except (Shape, AnalysisBroken) as e:
            ctx.broken(RULE, "%s: %s" % (fname, e))
            continue
        inst = {"function": fname, "k_range": [1, kmax], "walk_steps_followed": steps_total, "config": cfg}
        if bad:
            ctx.violation(RULE, "%s:untested" % fname, bad[0], bad[1], inst)
        else:
            ctx.ok(RULE, inst, "for k = 1..%d every walk step starts from a cell tested with isPentagon and every cell written to %s was tested before the final return" % (kmax, outn))
    return n
