"""R-SYM: two sibling-agreement rules whose instances are discovered from the IR of /repo's current sources.

round3 (C14)  gridPathCells interpolates in cube coordinates and converts every interpolated point to a cell with a helper that takes the three real
    coordinates (three `double` parameters and a CoordIJK* result, reachable from gridPathCells).  Cube rounding treats the three coordinates alike:
    each is first converted to the nearest integer, then the one with the largest error is recomputed from the other two.  The rule reads, for each of the
    three parameters, the function through which it reaches its float-to-int conversion:
        all three in the round-to-nearest class (round, lround, llround, rint, nearbyint and their intrinsics)      holds
        at least one in the round-to-nearest class and another in the directed class (floor, ceil, trunc, a bare
        conversion)                                                                                                 VIOLATION, names the parameter
        anything else (a parameter that is never converted, another callee, arithmetic before the conversion)       ANALYSIS-BROKEN
    A directed conversion of one coordinate moves the rounding boundary of that coordinate by half a cell: points of the line that are nearer to
    another cell are assigned to the wrong one, so consecutive path cells repeat or are not neighbours.

selfexcl (C16)  A function that counts, for the outer loop of one polygon, how many polygons of a list contain it, tests the loop's first vertex with
    pointInsideLinkedGeoLoop against the outer loop of every list entry.  When the caller takes the loop from the same list (findDeepestContainer does:
    the discovery step requires a caller that passes `list[i]->first` and `list`), the entry that *is* the loop must be skipped: a vertex of a loop is on
    that loop's own boundary, where the ray-casting answer is arbitrary, and a count that is off by one picks the wrong polygon for a hole.
        every such call is dominated by the not-equal edge of a pointer comparison between the tested loop and the parameter      holds
        the function (and its callers of that shape) contain no pointer comparison with the parameter at all                      VIOLATION
        a comparison exists but does not dominate the call on its not-equal edge                                                  ANALYSIS-BROKEN
"""
from .build import AnalysisBroken

RULE = "R-SYM"
NEAREST = {"llvm.round.f64", "round", "lround", "llround", "llvm.lround.i64.f64", "llvm.llround.i64.f64", "rint", "llvm.rint.f64", "nearbyint",
           "llvm.nearbyint.f64", "lrint", "llvm.lrint.i64.f64", "llvm.roundeven.f64"}
DIRECTED = {"llvm.floor.f64", "floor", "llvm.ceil.f64", "ceil", "llvm.trunc.f64", "trunc"}
INT_RESULT = {"lround", "llround", "llvm.lround.i64.f64", "llvm.llround.i64.f64", "lrint", "llvm.lrint.i64.f64"}


def _callers(m, name):
    return [(g, x) for g in m.defined() for x in g.all_insts() if x.op == "call" and x.callee == name]


def _reachable(m, roots):
    seen, todo = set(), list(roots)
    while todo:
        n = todo.pop()
        if n in seen:
            continue
        seen.add(n)
        try:
            f = m.fn(n)
        except Exception:
            continue
        if f is None or not f.has_body:
            continue
        for i in f.all_insts():
            if i.op == "call" and i.callee:
                todo.append(i.callee)
    return seen


def _conversion_of(f, k):
    """how parameter k becomes an integer: ("callee"|"bare"|None, where)"""
    found = []
    for u in f.users(("a", k)):
        if u.op == "call" and u.callee and (u.callee in NEAREST or u.callee in DIRECTED) and list(u.ops[0][:2]) == ["a", k]:
            if u.callee in INT_RESULT:
                found.append((u.callee, u))
                continue
            conv = [c for c in f.users(("i", u.id)) if c.op in ("fptosi", "fptoui")]
            if conv and len(conv) == len(f.users(("i", u.id))):
                found.append((u.callee, u))
        elif u.op in ("fptosi", "fptoui"):
            found.append(("bare", u))
    return found


def _shared_array_conversion(f, dbl):
    """the three parameters are only stored into slots of one local array, and every load from that array feeds the same single conversion site:
    (callee, site) or None"""
    arr = set()
    for k in dbl:
        if _conversion_of(f, k):
            return None
        us = [u for u in f.users(("a", k)) if u.op == "store" and list(u.ops[0][:2]) == ["a", k]]
        if len(us) != 1:
            return None
        addr = us[0].ops[1]
        while addr[0] == "i" and f.insts[addr[1]].op in ("getelementptr", "bitcast"):
            addr = f.insts[addr[1]].ops[0]
        if addr[0] != "i" or f.insts[addr[1]].op != "alloca":
            return None
        arr.add(addr[1])
    if len(arr) != 1:
        return None
    a = next(iter(arr))
    # every use of the array: address computations, the three stores, loads, lifetime markers / memset
    loads, todo, seen = [], [("i", a)], set()
    while todo:
        key = todo.pop()
        if key in seen:
            continue
        seen.add(key)
        for u in f.users(key):
            if u.op in ("getelementptr", "bitcast"):
                todo.append(("i", u.id))
            elif u.op == "load":
                loads.append(u)
            elif u.op == "store" and list(u.ops[1][:2]) == list(key) and u.ops[0][0] == "a":
                continue
            elif u.op == "call" and u.callee and (u.callee.startswith("llvm.lifetime") or u.callee.startswith("llvm.dbg")):
                continue
            else:
                return None
    if not loads:
        return None
    sites = set()
    for ld in loads:
        for u in f.users(("i", ld.id)):
            if u.op == "call" and u.callee and (u.callee in NEAREST or u.callee in DIRECTED):
                sites.add((u.callee, u.id))
            elif u.op in ("fptosi", "fptoui"):
                sites.add(("bare", u.id))
            else:
                return None
    if len(sites) != 1:
        return None
    callee, sid = next(iter(sites))
    return callee, f.insts[sid]


def check_round3(ctx, m, cfg):
    reach = _reachable(m, ["gridPathCells"])
    n = 0
    for f in m.defined():
        if f.name not in reach or f.name == "gridPathCells":
            continue
        dbl = [k for k, a in enumerate(f.args) if a["type"] == "double"]
        if len(dbl) != 3 or not any(a["type"].startswith("%struct.CoordIJK*") for a in f.args):
            continue
        n += 1
        inst = {"function": f.name, "at": f.where(), "config": cfg}
        kinds = {}
        for k in dbl:
            cv = _conversion_of(f, k)
            if len(cv) != 1:
                kinds[k] = (None, None)
            else:
                kinds[k] = cv[0]
        names = {k: f.args[k]["name"] for k in dbl}
        if all(c is None for c, _ in kinds.values()):
            shared = _shared_array_conversion(f, dbl)
            if shared is not None:
                callee, site = shared
                inst["conversions"] = {names[k]: callee + " (one conversion site over a local array holding the three coordinates)" for k in dbl}
                if callee in NEAREST:
                    ctx.ok(RULE, inst, "%s stores its three cube coordinates into one local array and converts every element at one site (%s): they are rounded alike" % (f.name, callee))
                    continue
        if any(c is None for c, _ in kinds.values()):
            bad = [names[k] for k in dbl if kinds[k][0] is None]
            ctx.broken(RULE, "round3 %s: parameter(s) %s do not reach exactly one recognised float-to-integer conversion" % (f.name, ", ".join(bad)))
            continue
        inst["conversions"] = {names[k]: kinds[k][0] for k in dbl}
        near = [k for k in dbl if kinds[k][0] in NEAREST]
        directed = [k for k in dbl if kinds[k][0] in DIRECTED or kinds[k][0] == "bare"]
        if len(near) == 3:
            ctx.ok(RULE, inst, "%s converts its three cube coordinates alike, each to the nearest integer (%s)" % (f.name, ", ".join(sorted(set(inst["conversions"].values())))))
        elif near and directed:
            k = directed[0]
            ctx.violation(RULE, "round3:%s:%s" % (f.name, names[k]),
                          "%s converts coordinate '%s' with %s while '%s' is converted with %s: the three cube coordinates of an interpolated path point are not rounded "
                          "alike, so points nearer to another cell are assigned to the wrong one (gridPathCells repeats a cell or steps between non-neighbours)"
                          % (f.name, names[k], "a bare float-to-integer cast (truncation)" if kinds[k][0] == "bare" else kinds[k][0], names[near[0]], kinds[near[0]][0]),
                          kinds[k][1].where(), inst)
        else:
            ctx.broken(RULE, "round3 %s: conversions %s are not a known combination" % (f.name, inst["conversions"]))
    return n


def _root_param(f, o, depth=0):
    """parameter index from which a pointer operand is derived through gep / load / casts only"""
    while depth < 12:
        depth += 1
        if o[0] == "a":
            return o[1]
        if o[0] != "i":
            return None
        i = f.insts[o[1]]
        if i.op in ("getelementptr", "load", "bitcast"):
            o = i.ops[0]
            continue
        return None
    return None


def _dominators(f):
    nb = len(f.blocks)
    dom = [set(range(nb)) for _ in range(nb)]
    dom[0] = {0}
    changed = True
    while changed:
        changed = False
        for b in f.blocks[1:]:
            ps = [dom[p] for p in b.preds]
            new = (set.intersection(*ps) if ps else set()) | {b.idx}
            if new != dom[b.idx]:
                dom[b.idx] = new
                changed = True
    return dom


def _edge_dominates(f, dom, src, dst, target):
    """the CFG edge src->dst dominates block `target`: dst dominates target and dst's only predecessor is src (or dst == target with that property)"""
    return dst in dom[target] and f.blocks[dst].preds == [src]


def check_interp_width(ctx, m, cfg):
    """width (C14): the real cube coordinates handed to the rounding helper are computed in double precision.  Local IJK coordinates at fine resolutions
    reach about 7^(15/2) = 2.2e6 > 2^21, where a `float` has a spacing of 0.25: an interpolated point kept (or accumulated) in single precision is
    off by a quarter of a cell and more, so the rounded cell is not the one the exact line passes through - the path does not end in `end` or steps
    between non-neighbours.  The rule takes the backward slice (through arithmetic, casts, phis and selects, not through memory or calls other than
    the libm intrinsics) of the three coordinate arguments at every call of the helper and reports any value of type float in it."""
    reach = _reachable(m, ["gridPathCells"])
    helpers = [f for f in m.defined() if f.name in reach and f.name != "gridPathCells" and len([a for a in f.args if a["type"] == "double"]) == 3
               and any(a["type"].startswith("%struct.CoordIJK*") for a in f.args)]
    n = 0
    for h in helpers:
        dbl = [k for k, a in enumerate(h.args) if a["type"] == "double"]
        for g, c in _callers(m, h.name):
            n += 1
            inst = {"helper": h.name, "caller": g.name, "call": c.where(), "config": cfg}
            seen, todo, bad, size = set(), [c.ops[k] for k in dbl if k < len(c.ops)], None, 0
            while todo and bad is None:
                o = todo.pop()
                if o[0] != "i" or o[1] in seen:
                    continue
                seen.add(o[1])
                i = g.insts[o[1]]
                size += 1
                if i.type == "float" or i.op in ("fptrunc", "fpext"):
                    bad = i
                    break
                if i.op in ("load", "alloca"):
                    continue
                if i.op == "call" and not (i.callee or "").startswith("llvm."):
                    continue
                todo.extend(x for x in i.ops if x[0] == "i")
            inst["slice_size"] = size
            if bad is not None:
                ctx.violation(RULE, "width:%s:%s" % (g.name, h.name),
                              "%s computes a cube coordinate it hands to %s in single precision (%s of type %s at %s): local coordinates at fine resolutions exceed 2^21, where "
                              "float values are 0.25 apart, so interpolated path points are rounded to the wrong cell (the path misses its end or steps between non-neighbours)"
                              % (g.name, h.name, bad.op, bad.type, bad.where()), bad.where(), inst)
            else:
                ctx.ok(RULE, inst, "the %d values from which %s computes the coordinates handed to %s are all double precision or integers" % (size, g.name, h.name))
    return n


def check_selfexcl(ctx, m, cfg):
    PRED = "pointInsideLinkedGeoLoop"
    n = 0
    for f in m.defined():
        calls = [c for c in f.all_insts() if c.op == "call" and c.callee == PRED and len(c.ops) >= 3]
        for c in calls:
            p = _root_param(f, c.ops[2])
            if p is None or not f.args[p]["type"].startswith("%struct.LinkedGeoLoop*"):
                continue
            if list(c.ops[0][:2]) == ["a", p]:
                continue
            # the tested loop comes from a list parameter?
            lp = _root_param(f, c.ops[0])
            if lp is None or lp == p:
                continue
            # discovery: some caller takes the loop from the very list it passes
            shared = []
            for g, x in _callers(m, f.name):
                if max(p, lp) < len(x.ops):
                    a, b = _root_param(g, x.ops[p]), x.ops[lp]
                    if b[0] == "a" and a == b[1]:
                        shared.append((g, x))
            if not shared:
                continue
            n += 1
            inst = {"function": f.name, "call": c.where(), "loop_parameter": f.args[p]["name"], "list_parameter": f.args[lp]["name"],
                    "callers_passing_an_entry_of_the_list": [g.name for g, _ in shared], "config": cfg}
            cmps = [i for i in f.all_insts() if i.op == "icmp" and i.pred in ("eq", "ne") and any(list(o[:2]) == ["a", p] for o in i.ops)]
            for g, x in shared:
                # an exclusion done by the caller before the call would also be a comparison of list entries there
                cmps_caller = [i for i in g.all_insts() if i.op == "icmp" and i.pred in ("eq", "ne") and "Linked" in str(g.insts[i.ops[0][1]].type if i.ops[0][0] == "i" else "")]
                if cmps_caller:
                    cmps = cmps + [None]
            if not cmps:
                ctx.violation(RULE, "selfexcl:%s" % f.name,
                              "%s tests the first vertex of '%s' against the outer loop of every entry of '%s' and never compares the entry with '%s', although %s passes a "
                              "loop taken from that very list: the loop is tested against itself (a point on its own boundary, arbitrary answer), so the container count and "
                              "with it the polygon chosen for a hole can be wrong" % (f.name, f.args[p]["name"], f.args[lp]["name"], f.args[p]["name"], shared[0][0].name),
                              c.where(), inst)
                continue
            dom = _dominators(f)
            good = False
            for i in cmps:
                if i is None:
                    continue
                other = [o for o in i.ops if list(o[:2]) != ["a", p]]
                if len(other) != 1 or list(other[0][:2]) != list(c.ops[0][:2]):
                    continue
                for b in f.blocks:
                    t = b.term
                    if t.op == "br" and len(t.ops) == 3 and list(t.ops[0][:2]) == ["i", i.id]:
                        tsucc, fsucc = t.succs()
                        ne_succ = fsucc if i.pred == "eq" else tsucc
                        if _edge_dominates(f, dom, b.idx, ne_succ, c.block.idx):
                            good = True
            if good:
                ctx.ok(RULE, inst, "%s calls %s only on the not-equal edge of a comparison between the tested loop and '%s': the loop is never tested against itself"
                       % (f.name, PRED, f.args[p]["name"]))
            else:
                ctx.broken(RULE, "selfexcl %s: a pointer comparison with '%s' exists but the call at %s is not dominated by its not-equal edge" % (f.name, f.args[p]["name"], c.where()))
    return n


def check_substrate(ctx, m, cfg):
    """substrate (C08, C19): _adjustOverageClassII is called in two roles: on a cell centre (substrate = 0, where `pentLeading4` asks for the rotation out of a
    pentagon's deleted sub-sequence) and on a vertex of the substrate grid (substrate = 1).  The vertex callers (cell boundary, pentagon vertex adjustment,
    getIcosahedronFaces) are siblings: a vertex is not a cell centre with a leading digit, so every one of them passes pentLeading4 = 0 (directly or through a
    local that is only ever 0).  A vertex call with substrate = 1 and a pentLeading4 that is not the constant 0 is reported: on the leading-4 sub-sequence of a
    pentagon base cell the vertex is rotated as if it were a centre and lands on the wrong face.  Non-constant `substrate` is ANALYSIS-BROKEN."""
    F = "_adjustOverageClassII"
    n = 0
    for f in m.defined():
        for c in f.all_insts():
            if c.op != "call" or c.callee != F or len(c.ops) < 4:
                continue
            sub, p4 = c.ops[3], c.ops[2]
            if sub[0] != "c":
                ctx.broken(RULE, "substrate %s: the substrate flag passed to %s at %s is not a constant" % (f.name, F, c.where()))
                n += 1
                continue
            if sub[1] == 0:
                continue
            n += 1
            inst = {"function": f.name, "call": c.where(), "substrate": sub[1], "config": cfg}
            if p4[0] == "c" and p4[1] == 0:
                ctx.ok(RULE, inst, "%s adjusts a substrate vertex with pentLeading4 = 0, like its siblings" % f.name)
            else:
                ctx.violation(RULE, "substrate:%s:%d" % (f.name, sum(1 for x in f.all_insts() if x.op == "call" and x.callee == F and x.id < c.id)),
                              "%s calls %s on a substrate-grid vertex (substrate = 1) with a pentLeading4 argument that is not the constant 0: every other vertex caller passes 0, "
                              "because the leading-digit rotation applies to cell centres only; on the leading-4 sub-sequence of a pentagon base cell the vertex is put on the wrong face"
                              % (f.name, F), c.where(), inst)
    return n
