"""R-BITPROV: bit-exact meaning of the index bit-twiddling (DESIGN.md 2.4).

Each instance names a function, the case split that makes its shifts and loop bounds constant (integer parameters and/or
assumed fields of the index), and the documented meaning as a lane automaton (for predicates) or as a lane-wise map (for
functions that return / store a modified index).  Decided for ALL 2^64 index values per case (vlib/lanes.py)."""
from . import ir, lanes
from .lanes import LV, BI, Shape, F_const, F_and, F_or, F_not, NL
from .build import AnalysisBroken
from .tables import Tables

RULE = "R-BITPROV"
TEXT = {
    "validity": ("R-BITPROV: exact abstract interpretation of the validity bit tricks in a bit-lane transducer domain (each 64-bit value is, per "
                 "3-bit digit lane, a table (input digit, borrow) -> output bits; the borrow chain of `~h - MLO` is a carry-out table; shifts re-address "
                 "lanes; ctlz becomes 'highest set bit'), followed by the reachable-state computation of its product with the documented predicate's "
                 "automaton over the 22 lanes: _hasGoodTopBits, _hasAny7UptoRes (16 res), _hasAll7AfterRes (16 res), _hasDeletedSubsequence (122 base "
                 "cells) and isValidCell as a whole (16 res x 128 base-cell fields) agree with the documented layout for ALL 2^64 values; a disagreement "
                 "comes with a witness index."),
}
FLOOR = {"validity": 5}

# index layout, in h coordinates.  The numbers below are the DOCUMENTED layout (h3Index.h / the property text);
# R-WIT checks the header's macros against the same numbers.
DIGIT_LANE = lambda d: 15 - d        # digit d (1..15) is lane 15-d
BC_OFF, BC_W = 45, 7
RES_OFF, RES_W = 52, 4
RSV_OFF, RSV_W = 56, 3
MODE_OFF, MODE_W = 59, 4


def free_lanes():
    return [list(r) for r in lanes.LANE_VALUES]


def assume_field(allowed, off, width, value):
    """restrict the allowed lane values to those whose bits off..off+width-1 equal `value`"""
    out = [list(a) for a in allowed]
    for j in range(NL):
        lo, hi = 3 * j, 3 * j + 2
        m = 0
        v = 0
        for q in range(lo, hi + 1):
            if off <= q < off + width:
                m |= 1 << (q - lo)
                v |= ((value >> (q - off)) & 1) << (q - lo)
        if m:
            out[j] = [x for x in out[j] if (x & m) == v]
    return out


def ret_formula(paths):
    """formula for 'the function returns non-zero'"""
    f = F_const(False)
    for p in paths:
        r = p.ret
        if isinstance(r, int):
            rf = F_const(r != 0)
        elif isinstance(r, BI):
            rf = r.f
        else:
            raise Shape("function returns an index-derived value where a truth value was expected")
        f = F_or(f, F_and(p.cond, rf))
    return f


def fmt_digits(h):
    return "0x%016x (mode %d, reserved %d, res %d, base cell %d, digits %s)" % (
        h, (h >> 59) & 15, (h >> 56) & 7, (h >> 52) & 15, (h >> 45) & 127, "".join(str((h >> (3 * (15 - d))) & 7) for d in range(1, 16)))


# ------------------------------------------------------------------ specs (documented meaning)
class SpecAny7:
    def __init__(self, res): self.res = res
    def init(self): return False
    def step(self, j, x, s): return s or (15 - self.res <= j <= 14 and x == 7)
    def final(self, s): return {"ret": s}
    text = "true exactly when one of the digits 1..res is 7"


class SpecAll7:
    def __init__(self, res): self.res = res
    def init(self): return True
    def step(self, j, x, s): return s and not (j <= 14 - self.res and x != 7)
    def final(self, s): return {"ret": s}
    text = "true exactly when every digit res+1..15 is 7"


class SpecDeleted:
    def __init__(self, pent): self.pent = pent
    def init(self): return 0
    def step(self, j, x, s): return x if (j <= 14 and x != 0) else s
    def final(self, s): return {"ret": self.pent and s == 1}
    text = "true exactly when the base cell is a pentagon and the first non-zero digit is 1 (K axis)"


class SpecBits:
    """(h & mask) == value"""
    def __init__(self, mask, value):
        self.ml, self.vl = lanes.lanes_of(mask), lanes.lanes_of(value)
    def init(self): return True
    def step(self, j, x, s): return s and (x & self.ml[j]) == self.vl[j]
    def final(self, s): return {"ret": s}
    text = "true exactly when high bit = 0, mode = 1 and the reserved bits are 0 (top eight bits 0000 1000)"


class SpecValidCell:
    """the documented validity predicate, for a fixed (res, base cell) case"""
    def __init__(self, res, bc, pent, nbc):
        self.res, self.bc, self.pent, self.nbc = res, bc, pent, nbc
        self.ml, self.vl = lanes.lanes_of(0xFF << 56), lanes.lanes_of(0x08 << 56)
    def init(self): return (True, 0)
    def step(self, j, x, s):
        ok, first = s
        if j <= 14:
            d = 15 - j
            if d <= self.res:
                ok = ok and x != 7
                if x != 0:
                    first = x
            else:
                ok = ok and x == 7
        ok = ok and (x & self.ml[j]) == self.vl[j]
        return (ok, first)
    def final(self, s):
        ok, first = s
        return {"ret": ok and self.bc < self.nbc and not (self.pent and first == 1)}
    text = ("true exactly when high bit 0, mode 1, reserved 0, base cell < 122, digits 1..res in 0..6, digits res+1..15 equal 7, "
            "and for a pentagon base cell the first non-zero digit is not 1")


# ------------------------------------------------------------------ instances
def _pentagons(m):
    T = Tables(m)
    bcd = T.get("baseCellData")
    return [bool(r[1]) for r in bcd], len(bcd)


def _helper(ctx, m, cfg, fname, cases, mkargs, mkspec, what, props):
    """cases: iterable of case keys; mkargs(case) -> list of args (LV.input() for the index); mkspec(case) -> spec or None"""
    f = m.functions.get(fname)
    if f is None or f.decl or not f.has_body:
        return None
    n = 0
    states = 0
    for case in cases:
        spec = mkspec(case)
        if spec is None:
            continue
        ev = lanes.Evaluator(m)
        paths = ev.run(fname, mkargs(case))
        fm = ret_formula(paths)
        st, bad = lanes.decide(ev.allowed, {"ret": fm}, spec)
        states += st
        n += 1
        if bad:
            _name, got, exp, wit = bad
            ctx.violation(RULE, "%s:%s" % (fname, what), "%s(h = %s, %s) returns %s; documented meaning: %s"
                          % (fname, fmt_digits(wit), case if not isinstance(case, tuple) else ", ".join(map(str, case)), "true" if got else "false", spec.text),
                          f.where(), {"function": fname, "case": case, "witness": "0x%x" % wit, "config": cfg})
            return n
    ctx.ok(RULE, {"function": fname, "cases": n, "config": cfg, "product_states": states, "inputs_covered": "all 2^64 index values per case"},
           "%s is %s (lane transducer x documented automaton, %d cases, %d product states, no disagreeing reachable state)" % (fname, spec.text, n, states))
    return n


def check_validity(ctx, m, cfg, tier="quick"):
    """C01: the four bit-trick helpers of isValidCell mean what the layout documents; thorough: isValidCell as a whole."""
    pent, nbc = _pentagons(m)
    h = LV.input
    found = 0
    try:
        r = _helper(ctx, m, cfg, "_hasGoodTopBits", [()], lambda c: [h()], lambda c: SpecBits(0xFF << 56, 0x08 << 56), "top-bits", ["C01"])
        found += 1 if r else 0
        r = _helper(ctx, m, cfg, "_hasAny7UptoRes", [("res=%d" % r_, r_) for r_ in range(16)], lambda c: [h(), c[1]], lambda c: SpecAny7(c[1]), "any7", ["C01"])
        found += 1 if r else 0
        r = _helper(ctx, m, cfg, "_hasAll7AfterRes", [("res=%d" % r_, r_) for r_ in range(16)], lambda c: [h(), c[1]], lambda c: SpecAll7(c[1]), "all7", ["C01"])
        found += 1 if r else 0
        r = _helper(ctx, m, cfg, "_hasDeletedSubsequence", [("base_cell=%d" % b, b) for b in range(nbc)], lambda c: [h(), c[1]], lambda c: SpecDeleted(pent[c[1]]), "deleted-subsequence", ["C01"])
        found += 1 if r else 0
    except Shape as e:
        ctx.broken(RULE, "validity helpers: %s" % e)
        return
    whole = True
    if found < 4:
        ctx.note("bitprov_helpers_missing", "only %d of the 4 validity helpers exist as functions; isValidCell is decided as a whole instead" % found)
    if whole:
        check_isvalidcell_whole(ctx, m, cfg, pent, nbc)


_WM = None


def _whole_res(res):
    """worker: all 128 base-cell fields of one resolution -> (cases, states, bad|None, broken|None)"""
    m, pent, nbc = _WM
    n = states = 0
    bc = -1
    try:
        for bc in range(128):
            allowed = assume_field(assume_field(free_lanes(), RES_OFF, RES_W, res), BC_OFF, BC_W, bc)
            ev = lanes.Evaluator(m, allowed)
            fm = ret_formula(ev.run("isValidCell", [LV.input()]))
            st, bad = lanes.decide(allowed, {"ret": fm}, SpecValidCell(res, bc, bc < nbc and pent[bc], nbc))
            states += st
            n += 1
            if bad:
                return n, states, (res, bc, bad[1], bad[3]), None
    except Shape as e:
        return n, states, None, "res=%d base cell field=%d: %s" % (res, bc, e)
    return n, states, None, None


def check_isvalidcell_whole(ctx, m, cfg, pent, nbc):
    global _WM
    import multiprocessing as mp
    f = m.fn("isValidCell")
    _WM = (m, pent, nbc)
    try:
        with mp.get_context("fork").Pool(min(16, mp.cpu_count() or 1)) as pool:
            results = pool.map(_whole_res, range(16), 1)
    finally:
        _WM = None
    n = sum(r[0] for r in results)
    states = sum(r[1] for r in results)
    for r in results:
        if r[3]:
            ctx.broken(RULE, "isValidCell (whole function): %s" % r[3])
            return
    for r in results:
        if r[2]:
            res, bc, got, wit = r[2]
            ctx.violation(RULE, "isValidCell:whole", "isValidCell(%s) returns %d; documented: %s" % (fmt_digits(wit), int(got), SpecValidCell.text),
                          f.where(), {"witness": "0x%x" % wit, "res": res, "base_cell": bc, "config": cfg})
            return
    ctx.ok(RULE, {"function": "isValidCell", "cases": n, "config": cfg, "product_states": states, "inputs_covered": "all 2^64 values (16 resolutions x 128 base-cell fields x all other bits)"},
           "isValidCell (helpers evaluated through their call sites) returns true exactly for the documented layout: " + SpecValidCell.text)
