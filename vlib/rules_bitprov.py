"""R-BITPROV: bit-exact meaning of the index bit-twiddling (DESIGN.md 2.4).

Each instance names a function, the case split that makes its shifts and loop bounds constant (integer parameters and/or
assumed fields of the index), and the documented meaning as a lane automaton (for predicates) or as a lane-wise map (for
functions that return / store a modified index).  Decided for ALL 2^64 index values per case (vlib/lanes.py)."""
from . import ir, lanes
from .lanes import LV, BI, Shape, F_const, F_and, F_or, F_not, NL
from .build import AnalysisBroken
from .tables import Tables

RULE = "R-BITPROV"
TEXT = {
    "validity": ("R-BITPROV: exact abstract interpretation of the validity bit tricks in a bit-lane transducer domain (each 64-bit value is, per "
                 "3-bit digit lane, a table (input digit, borrow) -> output bits; the borrow chain of `~h - MLO` is a carry-out table; shifts re-address "
                 "lanes; ctlz becomes 'highest set bit'), followed by the reachable-state computation of its product with the documented predicate's "
                 "automaton over the 22 lanes: _hasGoodTopBits, _hasAny7UptoRes (16 res), _hasAll7AfterRes (16 res), _hasDeletedSubsequence (122 base "
                 "cells) and isValidCell as a whole (16 res x 128 base-cell fields) agree with the documented layout for ALL 2^64 values; a disagreement "
                 "comes with a witness index."),
}
FLOOR = {"validity": 5}

# index layout, in h coordinates.  The numbers below are the DOCUMENTED layout (h3Index.h / the property text);
# R-WIT checks the header's macros against the same numbers.
DIGIT_LANE = lambda d: 15 - d        # digit d (1..15) is lane 15-d
BC_OFF, BC_W = 45, 7
RES_OFF, RES_W = 52, 4
RSV_OFF, RSV_W = 56, 3
MODE_OFF, MODE_W = 59, 4


def free_lanes():
    return [list(r) for r in lanes.LANE_VALUES]


def assume_field(allowed, off, width, value):
    """restrict the allowed lane values to those whose bits off..off+width-1 equal `value`"""
    out = [list(a) for a in allowed]
    for j in range(NL):
        lo, hi = 3 * j, 3 * j + 2
        m = 0
        v = 0
        for q in range(lo, hi + 1):
            if off <= q < off + width:
                m |= 1 << (q - lo)
                v |= ((value >> (q - off)) & 1) << (q - lo)
        if m:
            out[j] = [x for x in out[j] if (x & m) == v]
    return out


def ret_formula(paths):
    """formula for 'the function returns non-zero'"""
    f = F_const(False)
    for p in paths:
        r = p.ret
        if isinstance(r, int):
            rf = F_const(r != 0)
        elif isinstance(r, BI):
            rf = r.f
        else:
            raise Shape("function returns an index-derived value where a truth value was expected")
        f = F_or(f, F_and(p.cond, rf))
    return f


def fmt_digits(h):
    return "0x%016x (mode %d, reserved %d, res %d, base cell %d, digits %s)" % (
        h, (h >> 59) & 15, (h >> 56) & 7, (h >> 52) & 15, (h >> 45) & 127, "".join(str((h >> (3 * (15 - d))) & 7) for d in range(1, 16)))


# ------------------------------------------------------------------ specs (documented meaning)
class SpecAny7:
    def __init__(self, res): self.res = res
    def init(self): return False
    def step(self, j, x, s): return s or (15 - self.res <= j <= 14 and x == 7)
    def final(self, s): return {"ret": s}
    text = "true exactly when one of the digits 1..res is 7"


class SpecAll7:
    def __init__(self, res): self.res = res
    def init(self): return True
    def step(self, j, x, s): return s and not (j <= 14 - self.res and x != 7)
    def final(self, s): return {"ret": s}
    text = "true exactly when every digit res+1..15 is 7"


class SpecDeleted:
    def __init__(self, pent): self.pent = pent
    def init(self): return 0
    def step(self, j, x, s): return x if (j <= 14 and x != 0) else s
    def final(self, s): return {"ret": self.pent and s == 1}
    text = "true exactly when the base cell is a pentagon and the first non-zero digit is 1 (K axis)"


class SpecBits:
    """(h & mask) == value"""
    def __init__(self, mask, value):
        self.ml, self.vl = lanes.lanes_of(mask), lanes.lanes_of(value)
    def init(self): return True
    def step(self, j, x, s): return s and (x & self.ml[j]) == self.vl[j]
    def final(self, s): return {"ret": s}
    text = "true exactly when high bit = 0, mode = 1 and the reserved bits are 0 (top eight bits 0000 1000)"


class SpecValidCell:
    """the documented validity predicate, for a fixed (res, base cell) case"""
    def __init__(self, res, bc, pent, nbc):
        self.res, self.bc, self.pent, self.nbc = res, bc, pent, nbc
        self.ml, self.vl = lanes.lanes_of(0xFF << 56), lanes.lanes_of(0x08 << 56)
    def init(self): return (True, 0)
    def step(self, j, x, s):
        ok, first = s
        if j <= 14:
            d = 15 - j
            if d <= self.res:
                ok = ok and x != 7
                if x != 0:
                    first = x
            else:
                ok = ok and x == 7
        ok = ok and (x & self.ml[j]) == self.vl[j]
        return (ok, first)
    def final(self, s):
        ok, first = s
        return {"ret": ok and self.bc < self.nbc and not (self.pent and first == 1)}
    text = ("true exactly when high bit 0, mode 1, reserved 0, base cell < 122, digits 1..res in 0..6, digits res+1..15 equal 7, "
            "and for a pentagon base cell the first non-zero digit is not 1")


# ------------------------------------------------------------------ instances
def _pentagons(m):
    T = Tables(m)
    bcd = T.get("baseCellData")
    return [bool(r[1]) for r in bcd], len(bcd)


def _helper(ctx, m, cfg, fname, cases, mkargs, mkspec, what, props):
    """cases: iterable of case keys; mkargs(case) -> list of args (LV.input() for the index); mkspec(case) -> spec or None"""
    f = m.functions.get(fname)
    if f is None or f.decl or not f.has_body:
        return None
    n = 0
    states = 0
    for case in cases:
        spec = mkspec(case)
        if spec is None:
            continue
        ev = lanes.Evaluator(m)
        paths = ev.run(fname, mkargs(case))
        fm = ret_formula(paths)
        st, bad = lanes.decide(ev.allowed, {"ret": fm}, spec)
        states += st
        n += 1
        if bad:
            _name, got, exp, wit = bad
            ctx.violation(RULE, "%s:%s" % (fname, what), "%s(h = %s, %s) returns %s; documented meaning: %s"
                          % (fname, fmt_digits(wit), case if not isinstance(case, tuple) else ", ".join(map(str, case)), "true" if got else "false", spec.text),
                          f.where(), {"function": fname, "case": case, "witness": "0x%x" % wit, "config": cfg})
            return n
    ctx.ok(RULE, {"function": fname, "cases": n, "config": cfg, "product_states": states, "inputs_covered": "all 2^64 index values per case"},
           "%s is %s (lane transducer x documented automaton, %d cases, %d product states, no disagreeing reachable state)" % (fname, spec.text, n, states))
    return n


def check_validity(ctx, m, cfg, tier="quick"):
    from . import core
    core.replay(ctx, core.cached(m.path, "bitprov-validity-" + cfg, tier, lambda rec: _check_validity(rec, m, cfg, tier)))


def _check_validity(ctx, m, cfg, tier="quick"):
    """C01: the four bit-trick helpers of isValidCell mean what the layout documents; thorough: isValidCell as a whole."""
    pent, nbc = _pentagons(m)
    h = LV.input
    found = 0
    try:
        r = _helper(ctx, m, cfg, "_hasGoodTopBits", [()], lambda c: [h()], lambda c: SpecBits(0xFF << 56, 0x08 << 56), "top-bits", ["C01"])
        found += 1 if r else 0
        r = _helper(ctx, m, cfg, "_hasAny7UptoRes", [("res=%d" % r_, r_) for r_ in range(16)], lambda c: [h(), c[1]], lambda c: SpecAny7(c[1]), "any7", ["C01"])
        found += 1 if r else 0
        r = _helper(ctx, m, cfg, "_hasAll7AfterRes", [("res=%d" % r_, r_) for r_ in range(16)], lambda c: [h(), c[1]], lambda c: SpecAll7(c[1]), "all7", ["C01"])
        found += 1 if r else 0
        r = _helper(ctx, m, cfg, "_hasDeletedSubsequence", [("base_cell=%d" % b, b) for b in range(nbc)], lambda c: [h(), c[1]], lambda c: SpecDeleted(pent[c[1]]), "deleted-subsequence", ["C01"])
        found += 1 if r else 0
    except Shape as e:
        ctx.broken(RULE, "validity helpers: %s" % e)
        return
    whole = True
    if found < 4:
        ctx.note("bitprov_helpers_missing", "only %d of the 4 validity helpers exist as functions; isValidCell is decided as a whole instead" % found)
    if whole:
        check_isvalidcell_whole(ctx, m, cfg, pent, nbc)


_WM = None


def _whole_res(res):
    """worker: all 128 base-cell fields of one resolution -> (cases, states, bad|None, broken|None)"""
    m, pent, nbc = _WM
    n = states = 0
    bc = -1
    try:
        for bc in range(128):
            allowed = assume_field(assume_field(free_lanes(), RES_OFF, RES_W, res), BC_OFF, BC_W, bc)
            ev = lanes.Evaluator(m, allowed)
            fm = ret_formula(ev.run("isValidCell", [LV.input()]))
            st, bad = lanes.decide(allowed, {"ret": fm}, SpecValidCell(res, bc, bc < nbc and pent[bc], nbc))
            states += st
            n += 1
            if bad:
                return n, states, (res, bc, bad[1], bad[3]), None
    except Shape as e:
        return n, states, None, "res=%d base cell field=%d: %s" % (res, bc, e)
    return n, states, None, None


def check_isvalidcell_whole(ctx, m, cfg, pent, nbc):
    f = m.fn("isValidCell")
    results = _pmap(_whole_res, range(16), (m, pent, nbc))
    n = sum(r[0] for r in results)
    states = sum(r[1] for r in results)
    for r in results:
        if r[3]:
            ctx.broken(RULE, "isValidCell (whole function): %s" % r[3])
            return
    for r in results:
        if r[2]:
            res, bc, got, wit = r[2]
            ctx.violation(RULE, "isValidCell:whole", "isValidCell(%s) returns %d; documented: %s" % (fmt_digits(wit), int(got), SpecValidCell.text),
                          f.where(), {"witness": "0x%x" % wit, "res": res, "base_cell": bc, "config": cfg})
            return
    ctx.ok(RULE, {"function": "isValidCell", "cases": n, "config": cfg, "product_states": states, "inputs_covered": "all 2^64 values (16 resolutions x 128 base-cell fields x all other bits)"},
           "isValidCell (helpers evaluated through their call sites) returns true exactly for the documented layout: " + SpecValidCell.text)


# ====================================================================== index operations (C03/C04/C05/C09/C10)
E_SUCCESS, E_RES_DOMAIN, E_RES_MISMATCH, E_DIR_EDGE_INVALID = 0, 4, 12, 6


class SpecNone:
    """no automaton state: every named formula must be false ('no path yields a value different from the documented one')"""
    def __init__(self, names): self.names = names
    def init(self): return 0
    def step(self, j, x, s): return s
    def final(self, s): return {n: False for n in self.names}


class SpecLead:
    """tracks the first non-zero digit among 1..res (highest non-zero lane >= 15-res), optionally after a digit map"""
    def __init__(self, res, dmap=None, names=None):
        self.res, self.dmap, self.names = res, dmap, names
    def init(self): return 0
    def step(self, j, x, s):
        if 15 - self.res <= j <= 14:
            d = self.dmap[x] if self.dmap else x
            if d != 0:
                return d
        return s
    def final(self, s):
        return self.names(s)


def _digit_map(m, fname):
    from . import tables
    mp, default = tables.switch_map(m, fname)
    if default != "identity":
        raise AnalysisBroken("%s: default case is not the identity" % fname)
    return [mp.get(d, d) for d in range(8)]


def _run_case(m, fname, allowed, args):
    ev = lanes.Evaluator(m, allowed)
    return ev, ev.run(fname, args)


def _report(ctx, cfg, fname, key, f, ncases, states, bad, text, casetxt=""):
    if bad:
        name, got, exp, wit = bad
        ctx.violation(RULE, "%s:%s" % (fname, key), "%s(%s%s): %s; documented: %s" % (fname, fmt_digits(wit), casetxt, name, text),
                      f.where(), {"function": fname, "witness": "0x%x" % wit, "config": cfg})
    else:
        ctx.ok(RULE, {"function": fname, "cases": ncases, "config": cfg, "product_states": states, "inputs_covered": "all index values per case"},
               "%s: %s (%d cases, no disagreeing reachable state)" % (fname, text, ncases))


def _res_cases():
    for res in range(16):
        yield res, assume_field(free_lanes(), RES_OFF, RES_W, res)


def chk_leading(ctx, m, cfg):
    fname = "_h3LeadingNonZeroDigit"
    f = m.fn(fname)
    text = "returns the first non-zero digit among 1..res(h), 0 if there is none"
    states = n = 0
    for res, allowed in _res_cases():
        ev, paths = _run_case(m, fname, allowed, [LV.input()])
        fm = {}
        for v in range(8):
            g = F_const(False)
            for p in paths:
                r = p.ret
                if isinstance(r, int):
                    t = F_const(r == v)
                elif isinstance(r, LV):
                    t = ev.icmp("eq", r, v, r.width, f.blocks[0].insts[0])
                    t = F_const(bool(t)) if isinstance(t, int) else t.f
                else:
                    raise Shape("unexpected return value kind")
                g = F_or(g, F_and(p.cond, t))
            fm["returns %d" % v] = g
        spec = SpecLead(res, None, lambda s: {"returns %d" % v: (s == v) for v in range(8)})
        st, bad = lanes.decide(allowed, fm, spec)
        states += st; n += 1
        if bad:
            nm, got, exp, wit = bad
            bad = ("'%s' is %s" % (nm, got), got, exp, wit)
            break
    _report(ctx, cfg, fname, "leading-digit", f, n, states, bad, text)


def _pmap(fn, items, shared):
    """fork-pool map with `shared` visible to the workers as _WM"""
    global _WM
    import multiprocessing as mp
    _WM = shared
    try:
        with mp.get_context("fork").Pool(min(16, mp.cpu_count() or 1)) as pool:
            return pool.map(fn, items, 1)
    finally:
        _WM = None


def _ispent_res(res):
    m, pent, nbc = _WM
    states = n = 0
    try:
        for bc in range(128):
            allowed = assume_field(assume_field(free_lanes(), RES_OFF, RES_W, res), BC_OFF, BC_W, bc)
            ev, paths = _run_case(m, "isPentagon", allowed, [LV.input()])
            isp = bc < nbc and pent[bc]
            spec = SpecLead(res, None, lambda s, isp=isp: {"returns non-zero": isp and s == 0})
            st, bad = lanes.decide(allowed, {"returns non-zero": ret_formula(paths)}, spec)
            states += st; n += 1
            if bad:
                return n, states, ("'%s' is %s" % (bad[0], bad[1]), bad[1], bad[2], bad[3]), None
    except Shape as e:
        return n, states, None, "res=%d: %s" % (res, e)
    return n, states, None, None


def chk_ispentagon(ctx, m, cfg):
    fname = "isPentagon"
    f = m.fn(fname)
    pent, nbc = _pentagons(m)
    text = "non-zero exactly when the base cell is one of the pentagons and the digits 1..res(h) are all 0"
    results = _pmap(_ispent_res, range(16), (m, pent, nbc))
    for r in results:
        if r[3]:
            raise Shape(r[3])
    bad = next((r[2] for r in results if r[2]), None)
    _report(ctx, cfg, fname, "is-pentagon", f, sum(r[0] for r in results), sum(r[1] for r in results), bad, text)


def _rot_lane(res, dmap, times=1):
    def fn(j, x):
        if 15 - res <= j <= 14:
            for _ in range(times):
                x = dmap[x]
        return x
    return fn


def chk_rotate(ctx, m, cfg):
    for fname, mapfn in (("_h3Rotate60ccw", "_rotate60ccw"), ("_h3Rotate60cw", "_rotate60cw")):
        f = m.fn(fname)
        dmap = _digit_map(m, mapfn)
        text = "every digit 1..res(h) is replaced by %s(digit); all other bits unchanged" % mapfn
        states = n = 0
        bad = None
        for res, allowed in _res_cases():
            ev, paths = _run_case(m, fname, allowed, [LV.input()])
            fm = {"result differs": lanes.mismatch_formula(paths, lambda p: p.ret, _rot_lane(res, dmap))}
            st, bad = lanes.decide(allowed, fm, SpecNone(list(fm)))
            states += st; n += 1
            if bad:
                bad = ("result differs from the documented one", bad[1], bad[2], bad[3])
                break
        _report(ctx, cfg, fname, "rotate", f, n, states, bad, text)


def chk_rotate_pent(ctx, m, cfg):
    for fname, mapfn in (("_h3RotatePent60ccw", "_rotate60ccw"), ("_h3RotatePent60cw", "_rotate60cw")):
        f = m.fn(fname)
        dmap = _digit_map(m, mapfn)
        text = ("every digit 1..res(h) is replaced by %s(digit); if the first non-zero digit would then be K (1, the deleted sub-sequence of a "
                "pentagon) all digits are rotated once more; all other bits unchanged" % mapfn)
        states = n = 0
        bad = None
        for res, allowed in _res_cases():
            ev, paths = _run_case(m, fname, allowed, [LV.input()])
            fm = {"once": lanes.mismatch_formula(paths, lambda p: p.ret, _rot_lane(res, dmap, 1)),
                  "twice": lanes.mismatch_formula(paths, lambda p: p.ret, _rot_lane(res, dmap, 2))}
            # the first non-zero ROTATED digit decides which of the two documented results applies
            spec = SpecLead(res, dmap, lambda s: {"once": None, "twice": False} if s == 1 else {"once": False, "twice": None})
            st, bad = lanes.decide(allowed, fm, spec)
            states += st; n += 1
            if bad:
                bad = ("result differs from the documented one (digits rotated %s)" % bad[0], bad[1], bad[2], bad[3])
                break
        _report(ctx, cfg, fname, "rotate-pent", f, n, states, bad, text)


def _field_lane(off, width, value, j):
    """(mask, bits) of lane j for a field set to value"""
    mk = vl = 0
    for q in range(3 * j, 3 * j + 3):
        if off <= q < off + width:
            mk |= 1 << (q - 3 * j)
            vl |= ((value >> (q - off)) & 1) << (q - 3 * j)
    return mk, vl


def _ptr(k):
    return lanes.argptr(k)


def chk_parent(ctx, m, cfg):
    fname = "cellToParent"
    f = m.fn(fname)
    hk, pk, ok_ = f.arg_index("h"), f.arg_index("parentRes"), f.arg_index("out")
    if None in (hk, pk, ok_):
        raise AnalysisBroken("cellToParent: parameters h/parentRes/out not found")
    text = ("for 0 <= parentRes <= res(h): success and *out = h with the resolution field = parentRes and the digits parentRes+1..res(h) = 7, every other bit "
            "unchanged; parentRes > res(h): E_RES_MISMATCH; parentRes outside 0..15: E_RES_DOMAIN; no store on failure")
    states = n = 0
    bad = None
    for res, allowed in _res_cases():
        for pr in (-1, 16) + tuple(range(16)):
            args = [None] * len(f.args)
            args[hk], args[pk], args[ok_] = LV.input(), pr & 0xFFFFFFFF, _ptr(ok_)
            ev, paths = _run_case(m, fname, allowed, args)
            exp_code = E_RES_DOMAIN if pr < 0 or pr > 15 else (E_RES_MISMATCH if pr > res else E_SUCCESS)

            def lane(j, x, pr=pr, res=res):
                if j <= 14:
                    d = 15 - j
                    if pr < d <= res:
                        return 7
                    if d > res and x != 7:
                        return None         # beyond the cell's own resolution: 7 in every valid cell
                    return x
                mk, vl = _field_lane(RES_OFF, RES_W, pr, j)
                return (x & ~mk & 7) | vl
            wrongcode = F_const(False)
            wrongstore = F_const(False)
            for p in paths:
                if not isinstance(p.ret, int):
                    raise Shape("cellToParent returns a value that depends on the index beyond its resolution field")
                if p.ret != exp_code:
                    wrongcode = F_or(wrongcode, p.cond)
                st_ = p.stored(ok_)
                if exp_code != E_SUCCESS:
                    if st_ is not None:
                        wrongstore = F_or(wrongstore, p.cond)
                elif p.ret == E_SUCCESS:
                    if st_ is None:
                        wrongstore = F_or(wrongstore, p.cond)
                    else:
                        wrongstore = F_or(wrongstore, F_and(p.cond, lanes.F_atom(lanes.Atom("nz", lanes.diff_lv(st_, lane)))))
            fm = {"returns a code other than %d" % exp_code: wrongcode, "*out is not the documented parent (or is written on failure)": wrongstore}
            st, bad = lanes.decide(allowed, fm, SpecNone(list(fm)))
            states += st; n += 1
            if bad:
                bad = (bad[0], bad[1], bad[2], bad[3])
                casetxt = ", parentRes=%d" % pr
                break
        if bad:
            break
    _report(ctx, cfg, fname, "parent", f, n, states, bad, text, casetxt if bad else "")


def chk_centerchild(ctx, m, cfg):
    fname = "cellToCenterChild"
    f = m.fn(fname)
    hk, ck, ok_ = f.arg_index("h"), f.arg_index("childRes"), f.arg_index("child")
    if None in (hk, ck, ok_):
        raise AnalysisBroken("cellToCenterChild: parameters h/childRes/child not found")
    text = ("for res(h) <= childRes <= 15: success and *child = h with the resolution field = childRes and the digits res(h)+1..childRes = 0, every other bit "
            "unchanged; otherwise E_RES_DOMAIN and no store")
    states = n = 0
    bad = None
    casetxt = ""
    for res, allowed in _res_cases():
        for cr in (-1, 16) + tuple(range(16)):
            args = [None] * len(f.args)
            args[hk], args[ck], args[ok_] = LV.input(), cr & 0xFFFFFFFF, _ptr(ok_)
            ev, paths = _run_case(m, fname, allowed, args)
            exp_code = E_SUCCESS if res <= cr <= 15 else E_RES_DOMAIN

            def lane(j, x, cr=cr, res=res):
                if j <= 14:
                    d = 15 - j
                    if res < d <= cr:
                        return 0
                    if d > cr and x != 7:
                        return None
                    return x
                mk, vl = _field_lane(RES_OFF, RES_W, cr, j)
                return (x & ~mk & 7) | vl
            wrongcode = F_const(False)
            wrongstore = F_const(False)
            for p in paths:
                if not isinstance(p.ret, int):
                    raise Shape("cellToCenterChild returns an index-dependent code")
                if p.ret != exp_code:
                    wrongcode = F_or(wrongcode, p.cond)
                st_ = p.stored(ok_)
                if exp_code != E_SUCCESS:
                    if st_ is not None:
                        wrongstore = F_or(wrongstore, p.cond)
                elif p.ret == E_SUCCESS:
                    if st_ is None:
                        wrongstore = F_or(wrongstore, p.cond)
                    else:
                        wrongstore = F_or(wrongstore, F_and(p.cond, lanes.F_atom(lanes.Atom("nz", lanes.diff_lv(st_, lane)))))
            fm = {"returns a code other than %d" % exp_code: wrongcode, "*child is not the documented centre child (or is written on failure)": wrongstore}
            st, bad = lanes.decide(allowed, fm, SpecNone(list(fm)))
            states += st; n += 1
            if bad:
                casetxt = ", childRes=%d" % cr
                break
        if bad:
            break
    _report(ctx, cfg, fname, "center-child", f, n, states, bad, text, casetxt)


def chk_directchild(ctx, m, cfg):
    fname = "makeDirectChild"
    f = m.fn(fname)
    text = "for res(h) < 15: h with the resolution field = res(h)+1 and digit res(h)+1 = cellNumber, every other bit unchanged"
    states = n = 0
    bad = None
    casetxt = ""
    for res, allowed in _res_cases():
        if res == 15:
            continue
        for num in range(7):
            ev, paths = _run_case(m, fname, allowed, [LV.input(), num])

            def lane(j, x, res=res, num=num):
                if j <= 14:
                    return num if 15 - j == res + 1 else x
                mk, vl = _field_lane(RES_OFF, RES_W, res + 1, j)
                return (x & ~mk & 7) | vl
            fm = {"result differs": lanes.mismatch_formula(paths, lambda p: p.ret, lane)}
            st, bad = lanes.decide(allowed, fm, SpecNone(list(fm)))
            states += st; n += 1
            if bad:
                casetxt = ", cellNumber=%d" % num
                break
        if bad:
            break
    _report(ctx, cfg, fname, "direct-child", f, n, states, bad, text, casetxt)


def chk_edge_origin(ctx, m, cfg):
    fname = "getDirectedEdgeOrigin"
    f = m.fn(fname)
    ek, ok_ = f.arg_index("edge"), f.arg_index("out")
    if None in (ek, ok_):
        raise AnalysisBroken("getDirectedEdgeOrigin: parameters edge/out not found")
    text = "mode field == 2: success and *out = edge with mode = 1 and reserved bits = 0, every other bit unchanged; any other mode: E_DIR_EDGE_INVALID"
    states = n = 0
    bad = None
    casetxt = ""
    for mode in range(16):
        allowed = assume_field(free_lanes(), MODE_OFF, MODE_W, mode)
        args = [None] * len(f.args)
        args[ek], args[ok_] = LV.input(), _ptr(ok_)
        ev, paths = _run_case(m, fname, allowed, args)
        exp_code = E_SUCCESS if mode == 2 else E_DIR_EDGE_INVALID

        def lane(j, x):
            mk1, vl1 = _field_lane(MODE_OFF, MODE_W, 1, j)
            mk2, vl2 = _field_lane(RSV_OFF, RSV_W, 0, j)
            return (x & ~(mk1 | mk2) & 7) | vl1 | vl2
        wrongcode = F_const(False)
        wrongstore = F_const(False)
        for p in paths:
            if not isinstance(p.ret, int):
                raise Shape("getDirectedEdgeOrigin returns an index-dependent code")
            if p.ret != exp_code:
                wrongcode = F_or(wrongcode, p.cond)
            st_ = p.stored(ok_)
            if exp_code == E_SUCCESS and p.ret == E_SUCCESS:
                if st_ is None:
                    wrongstore = F_or(wrongstore, p.cond)
                else:
                    wrongstore = F_or(wrongstore, F_and(p.cond, lanes.F_atom(lanes.Atom("nz", lanes.diff_lv(st_, lane)))))
        fm = {"returns a code other than %d" % exp_code: wrongcode, "*out is not the edge with mode 1 and reserved bits 0": wrongstore}
        st, bad = lanes.decide(allowed, fm, SpecNone(list(fm)))
        states += st; n += 1
        if bad:
            casetxt = ", mode field %d" % mode
            break
    _report(ctx, cfg, fname, "edge-origin", f, n, states, bad, text, casetxt)


INDEXOPS = {
    "leading": (chk_leading, ["C03", "C04", "C05", "C09"]),
    "ispentagon": (chk_ispentagon, ["C03", "C04"]),
    "rotate": (chk_rotate, ["C02", "C03", "C05", "C09"]),
    "rotate-pent": (chk_rotate_pent, ["C02", "C03", "C05", "C09"]),
    "parent": (chk_parent, ["C04", "C06", "C13"]),
    "center-child": (chk_centerchild, ["C04"]),
    "direct-child": (chk_directchild, ["C04", "C06"]),
    "edge-origin": (chk_edge_origin, ["C10"]),
}


def check_indexops(ctx, m, cfg, tier="quick", pid=None, funcs=None):
    """pid: run the instances attributed to the property; funcs: additionally every instance about a function in this set (call-graph wiring)"""
    from . import core
    n = 0
    for name, (fn, props) in INDEXOPS.items():
        if pid is not None and pid not in props and not (funcs and set(INDEX_FUNCS.get(name, ())) & set(funcs)):
            continue
        n += 1

        def run(rec, fn=fn, name=name):
            try:
                fn(rec, m, cfg)
            except (Shape, AnalysisBroken) as e:
                rec.broken(RULE, "%s: %s" % (name, e))
        core.replay(ctx, core.cached(m.path, "bitprov-" + name + "-" + cfg, tier, run))
    return n


# functions each instance is about (for wiring by call-graph reachability from a property's entry points)
INDEX_FUNCS = {
    "leading": ["_h3LeadingNonZeroDigit"], "ispentagon": ["isPentagon"], "rotate": ["_h3Rotate60ccw", "_h3Rotate60cw"],
    "rotate-pent": ["_h3RotatePent60ccw", "_h3RotatePent60cw"], "parent": ["cellToParent"], "center-child": ["cellToCenterChild"],
    "direct-child": ["makeDirectChild"], "edge-origin": ["getDirectedEdgeOrigin"], "iter-init": ["iterInitParent", "_iterInitParent"],
    "iter-step": ["iterStepChild"], "getters": ["getResolution", "getBaseCellNumber", "isResClassIII"], "valid-edge": ["isValidDirectedEdge"],
    "closure": ["cellToParent", "cellToCenterChild", "getDirectedEdgeOrigin"], "enumerators": ["getRes0Cells", "getPentagons", "setH3Index"],
    "child-pos": ["cellToChildPos"], "pos-to-cell": ["childPosToCell"],
}


TEXT["indexops"] = ("R-BITPROV (index operations): the same lane-transducer interpretation, with loops unrolled under a case split on the resolution field "
                    "(and integer parameters), digit helpers lifted to lane tables, and every data-dependent branch forked into path conditions over lane atoms: "
                    "_h3LeadingNonZeroDigit, isPentagon, _h3Rotate60ccw/cw, _h3RotatePent60ccw/cw, cellToParent, cellToCenterChild, makeDirectChild, "
                    "getDirectedEdgeOrigin return / store exactly the documented index (field-wise) and code for ALL index values per case.")
FLOOR["indexops"] = 1


# ====================================================================== child iteration (C04, C06): induction base and step
def _ispent_model(pent_flag):
    """documented meaning of isPentagon (decided for the real code by chk_ispentagon): base cell is a pentagon (case flag) and digits 1..res all 0"""
    def model(ev, cargs, al, inst):
        x = cargs[0]
        if isinstance(x, int):
            x = lanes.const_lv(x)
        if not isinstance(x, LV) or x.off != 0:
            raise Shape("isPentagon applied to a shifted value")
        resf = LV(64, 0, x.tab, x.chain).masked(0xF << RES_OFF).concrete(al)
        if resf is None:
            raise Shape("isPentagon applied to an index whose resolution is not fixed by the case split")
        res = resf >> RES_OFF
        if not pent_flag:
            return 0
        mask = 0
        for d in range(1, res + 1):
            mask |= 7 << (3 * (15 - d))
        z = x.masked(mask)
        return BI(F_not(lanes.F_atom(lanes.Atom("nz", z))), 32)
    return model


class _Field:
    """a struct member by its debug-info description (bit offset, bit size, signedness): also bit-fields, whatever IR element holds them"""
    def __init__(self, name, off, size, signed):
        self.name, self.off, self.size, self.signed = name, off, size, signed

    def write(self, ev, mem, base, value, inst):
        if self.off % 8 == 0 and self.size % 8 == 0:
            return ev.mem_store(mem, base, self.off // 8, value if not isinstance(value, int) else value & ((1 << self.size) - 1), self.size // 8, inst)
        if not isinstance(value, int):
            raise Shape("index-derived value in a bit-field")
        b0, b1 = self.off // 8, (self.off + self.size - 1) // 8
        cur = 0
        for k in range(b0, b1 + 1):
            e = mem.get((base, k))
            cur |= ((e[0] if e is not None and isinstance(e[0], int) and e[1] == 1 else 0) & 0xFF) << (8 * (k - b0))
        sh = self.off - 8 * b0
        cur = (cur & ~(((1 << self.size) - 1) << sh)) | ((value & ((1 << self.size) - 1)) << sh)
        for k in range(b0, b1 + 1):
            mem = ev.mem_store(mem, base, k, (cur >> (8 * (k - b0))) & 0xFF, 1, inst)
        return mem

    def read(self, ev, mem, base, inst):
        if self.off % 8 == 0 and self.size % 8 == 0:
            v = ev.mem_load(mem, base, self.off // 8, self.size // 8, inst)
        else:
            b0, b1 = self.off // 8, (self.off + self.size - 1) // 8
            raw = ev.mem_load(mem, base, b0, b1 - b0 + 1, inst)
            if not isinstance(raw, int):
                raise Shape("index-derived value in a bit-field")
            v = (raw >> (self.off - 8 * b0)) & ((1 << self.size) - 1)
        if isinstance(v, int) and self.signed and v >> (self.size - 1):
            v -= 1 << self.size
        return v

    def unpack(self, word, word_off_bits):
        """the member's value inside an integer that holds the struct bytes starting at bit word_off_bits (ABI-packed struct returns)"""
        v = (word >> (self.off - word_off_bits)) & ((1 << self.size) - 1)
        if self.signed and v >> (self.size - 1):
            v -= 1 << self.size
        return v


def _iter_struct(m):
    sk, _i = m.struct_field("IterCellsChildren", "h") if any(n == "h" for n, _t in m.structs.get("struct.IterCellsChildren", {}).get("names", [])) else ("struct.IterCellsChildren", 0)
    info = m.structs.get(sk)
    if info is None:
        raise AnalysisBroken("struct IterCellsChildren not found")
    out = {}
    for name, off, size, _bf, sg in info.get("members", []):
        out[name] = _Field(name, off, size, sg)
    for need in ("h", "_parentRes", "_skipDigit"):
        if need not in out:
            raise AnalysisBroken("IterCellsChildren has no member %s" % need)
    if out["h"].size != 64:
        raise AnalysisBroken("IterCellsChildren.h is not 64 bits wide")
    return out


def chk_iter_init(ctx, m, cfg):
    offs = _iter_struct(m)
    dummy = None
    for fname in ("_iterInitParent", "iterInitParent"):
        f = m.fn(fname)
        dummy = f.blocks[0].insts[0]
        hk, ck, ik = f.arg_index("h"), f.arg_index("childRes"), f.arg_index("iter")
        wrapper = ik is None
        if None in (hk, ck):
            raise AnalysisBroken("%s: parameters h/childRes not found" % fname)
        text = ("for res(h) <= childRes <= 15 and h != 0 the iterator starts at the smallest child: h with resolution = childRes and digits res(h)+1..childRes = 0, "
                "_parentRes = res(h), _skipDigit = childRes if that cell is a pentagon else -1; otherwise the iterator is exhausted (h = 0)")
        n = states = 0
        bad = None
        casetxt = ""
        for res, allowed in _res_cases():
            for cr in (-1, 16) + tuple(range(16)):
                for pent in (False, True):
                    ev = lanes.Evaluator(m, allowed)
                    ev.models["isPentagon"] = _ispent_model(pent)
                    args = [None] * len(f.args)
                    args[hk], args[ck] = LV.input(), cr & 0xFFFFFFFF
                    if not wrapper:
                        args[ik] = lanes.argptr(ik)
                    paths = ev.run(fname, args)
                    valid = res <= cr <= 15

                    def lane(j, x, cr=cr, res=res):
                        if j <= 14:
                            d = 15 - j
                            if res < d <= cr:
                                return 0
                            if d > cr and x != 7:
                                return None
                            return x
                        mk, vl = _field_lane(RES_OFF, RES_W, cr, j)
                        return (x & ~mk & 7) | vl
                    zmask = 0
                    for d in range(1, res + 1):
                        zmask |= 7 << (3 * (15 - d))
                    lead_nz = lanes.F_atom(lanes.Atom("nz", LV.input().masked(zmask)))      # some digit 1..res(h) non-zero
                    hzero = F_not(lanes.F_atom(lanes.Atom("nz", LV.input())))
                    for p in paths:
                        if wrapper:
                            r = p.ret
                            if not (isinstance(r, tuple) and r[0] == "agg" and len(r[1]) == 2 and isinstance(r[1][1], int)):
                                raise Shape("iterInitParent does not return the iterator as {h, (parentRes, skipDigit)}")
                            if offs["h"].off != 0 or offs["_parentRes"].off < 64 or offs["_skipDigit"].off < 64:
                                raise Shape("IterCellsChildren layout changed")
                            hv, pv, sv = r[1][0], offs["_parentRes"].unpack(r[1][1], 64), offs["_skipDigit"].unpack(r[1][1], 64)
                        else:
                            hv = offs["h"].read(ev, p.mem, ("arg", ik), dummy)
                            sv = offs["_skipDigit"].read(ev, p.mem, ("arg", ik), dummy)
                            pv = offs["_parentRes"].read(ev, p.mem, ("arg", ik), dummy)
                        if hv is None or not isinstance(sv, int) or not isinstance(pv, int):
                            raise Shape("%s leaves a field unwritten or index-dependent" % fname)
                        h_is0 = F_const(hv == 0) if isinstance(hv, int) else F_not(lanes.F_atom(lanes.Atom("nz", hv)))
                        fm = {}
                        if not valid:
                            fm["iterator not exhausted for an invalid child resolution"] = F_and(p.cond, F_not(h_is0))
                        else:
                            fm["iterator not exhausted for h = 0"] = F_and(p.cond, F_and(hzero, F_not(h_is0)))
                            dl = lanes.F_atom(lanes.Atom("nz", lanes.diff_lv(hv, lane)))
                            fm["iter.h is not the smallest child"] = F_and(p.cond, F_and(F_not(hzero), dl))
                            if pv != res:
                                fm["_parentRes is not res(h)"] = F_and(p.cond, F_not(hzero))
                            ispent = F_and(F_const(pent), F_not(lead_nz))
                            exp_c = F_and(ispent, F_const(sv != cr))
                            exp_m = F_and(F_not(ispent), F_const(sv != -1))
                            fm["_skipDigit is not (childRes if pentagon else -1)"] = F_and(p.cond, F_and(F_not(hzero), F_or(exp_c, exp_m)))
                        st, bad = lanes.decide(p.allowed, fm, SpecNone(list(fm)))
                        states += st
                        if bad:
                            casetxt = ", childRes=%d, base cell %s a pentagon" % (cr, "is" if pent else "is not")
                            break
                    n += 1
                    if bad:
                        break
                if bad:
                    break
            if bad:
                break
        _report(ctx, cfg, fname, "iter-init", f, n, states, bad, text, casetxt)


def _succ_spec(c, p, s, pent):
    """documented successor among the children of a resolution-p cell at resolution c, as a transducer with its own carry chain:
    +1 on the digit string p+1..c in base 7; in a pentagon the value 1 in the skip digit s is skipped; carry out of digit p+1 = iteration over."""
    jc, jtop = 15 - c, 14 - p          # lanes of digit c and digit p+1
    js = 15 - s if pent else None
    tab, cout = [], []
    for j in range(NL):
        t, co = [], []
        for x in range(8):
            for cin in (0, 1):
                inc = cin + (1 if j == jc else 0)
                if jc <= j <= jtop:
                    v = x + inc
                    if js == j and v == 1:
                        t.append(2); co.append(0)
                    elif v >= 7 and inc:
                        t.append(v - 7); co.append(1)
                    else:
                        t.append(v & 7); co.append(0)
                else:
                    # outside the iterated digits: unchanged; an overflow is latched upwards
                    t.append(x); co.append(cin if j > jtop else 0)
        tab.append(tuple(t)); cout.append(tuple(co))
    if c == p:       # no digit to iterate: the single child is the last one
        ch = lanes.Chain(1, [tuple((cin if True else 0) for _x in range(8) for cin in (0, 1)) for _j in range(NL)])
        return LV(64, 0, [tuple(x for x in range(8) for _c in (0, 1)) for _j in range(NL)], ch), ch
    ch = lanes.Chain(0, cout)
    return LV(64, 0, tab, ch), ch


def _iter_step_cases():
    """(childRes c, parentRes p, skipDigit s, pentagon?, allowed lanes) over all reachable iterator states"""
    for c in range(16):
        base = assume_field(free_lanes(), RES_OFF, RES_W, c)
        for p in range(c + 1):
            # hexagon parent: digits p+1..c in 0..6
            al = [list(a) for a in base]
            for d in range(p + 1, c + 1):
                al[15 - d] = list(range(7))
            yield c, p, -1, False, al
            # pentagon parent, nothing skipped yet: digits p+1..c all zero, skip digit = c
            al = [list(a) for a in base]
            for d in range(p + 1, c + 1):
                al[15 - d] = [0]
            yield c, p, c, True, al
            # pentagon parent, first non-zero digit at k (value 2..6), skip digit = k-1
            for k in range(p + 1, c + 1):
                al = [list(a) for a in base]
                for d in range(p + 1, c + 1):
                    al[15 - d] = [0] if d < k else (list(range(2, 7)) if d == k else list(range(7)))
                yield c, p, k - 1, True, al


def _iter_step_case(args):
    c, p, s, pent, al = args
    m, offs = _WM
    fname = "iterStepChild"
    f = m.fn(fname)
    ev = lanes.Evaluator(m, al)
    base = ("arg", 0)
    dummy = f.blocks[0].insts[0]
    mem = {}
    mem = offs["h"].write(ev, mem, base, LV.input(), dummy)
    mem = offs["_parentRes"].write(ev, mem, base, p, dummy)
    mem = offs["_skipDigit"].write(ev, mem, base, s, dummy)
    if offs["_parentRes"].read(ev, mem, base, dummy) != p or offs["_skipDigit"].read(ev, mem, base, dummy) != s:
        return 1, 0, ("the iterator cannot represent the state _parentRes=%d, _skipDigit=%d (member too narrow): the documented iteration state is lost" % (p, s), False, True, 0, (c, p, s, pent)), None
    try:
        paths = ev.run(fname, [lanes.argptr(0)], 0, mem)
        S, ch = _succ_spec(c, p, s, pent)
        over = lanes.F_atom(lanes.Atom("cfinal", None, ch))
        skipped = F_const(False)
        if pent and p < s <= c:
            skipped = F_const(True) if s == c else lanes.F_atom(lanes.Atom("carryat", None, ch, 15 - s))
        states = 0
        for pth in paths:
            hv = offs["h"].read(ev, pth.mem, base, dummy)
            sv = offs["_skipDigit"].read(ev, pth.mem, base, dummy)
            pv = offs["_parentRes"].read(ev, pth.mem, base, dummy)
            if not isinstance(sv, int) or not isinstance(pv, int):
                raise Shape("iterStepChild leaves an index-dependent _skipDigit/_parentRes")
            hl = lanes.const_lv(hv) if isinstance(hv, int) else hv
            if hl.off != 0:
                raise Shape("iter.h is a shifted value")
            h_nz = lanes.F_atom(lanes.Atom("nz", hl))
            h_ne = lanes.F_atom(lanes.Atom("ne2", hl, S))
            fm = {"the iterator is not exhausted after the last child": F_and(pth.cond, F_and(over, h_nz)),
                  "iter.h is not the next child in index order": F_and(pth.cond, F_and(F_not(over), h_ne))}
            if pv != p:
                fm["_parentRes changes during the iteration"] = F_and(pth.cond, F_not(over))
            exp_skip = F_and(skipped, F_const(sv != s - 1))
            exp_keep = F_and(F_not(skipped), F_const(sv != s))
            fm["_skipDigit is not moved exactly when the 1 of the skip digit was skipped"] = F_and(pth.cond, F_and(F_not(over), F_or(exp_skip, exp_keep)))
            st, bad = lanes.decide(pth.allowed, fm, SpecNone(list(fm)))
            states += st
            if bad:
                return 1, states, (bad[0], bad[1], bad[2], bad[3], (c, p, s, pent)), None
    except Shape as e:
        return 0, 0, None, "childRes=%d parentRes=%d skipDigit=%d: %s" % (c, p, s, e)
    return 1, states, None, None


def chk_iter_step(ctx, m, cfg):
    fname = "iterStepChild"
    f = m.fn(fname)
    if len(f.args) != 1:
        raise AnalysisBroken("iterStepChild: expected one parameter")
    offs = _iter_struct(m)
    text = ("from every reachable iterator state (h a child of a resolution-p cell at resolution c; _skipDigit = -1 for a hexagon parent, = c while all iterated "
            "digits are 0, = k-1 once the first non-zero digit is at k for a pentagon parent) one step yields the next child in index order (+1 on the digits "
            "p+1..c in base 7, skipping the value 1 in the skip digit) with the skip digit moved exactly when it skipped, and h = 0 after the last child")
    cases = list(_iter_step_cases())
    results = _pmap(_iter_step_case, cases, (m, offs))
    for r in results:
        if r[3]:
            raise Shape(r[3])
    bad = next((r[2] for r in results if r[2]), None)
    casetxt = ""
    if bad:
        c, p, s, pent = bad[4]
        casetxt = ", _parentRes=%d, _skipDigit=%d (%s parent)" % (p, s, "pentagon" if pent else "hexagon")
        bad = bad[:4]
    _report(ctx, cfg, fname, "iter-step", f, sum(r[0] for r in results), sum(r[1] for r in results), bad, text, casetxt)


INDEXOPS["iter-init"] = (chk_iter_init, ["C04", "C06"])
INDEXOPS["iter-step"] = (chk_iter_step, ["C04", "C06"])


# ====================================================================== getters and isValidDirectedEdge
def chk_getters(ctx, m, cfg):
    """exported field getters return exactly the documented field of ANY 64-bit value"""
    for fname, off, width, post, what in (("getResolution", RES_OFF, RES_W, None, "bits 52..55"),
                                          ("getBaseCellNumber", BC_OFF, BC_W, None, "bits 45..51"),
                                          ("isResClassIII", RES_OFF, 1, None, "the lowest resolution bit (odd resolutions are Class III)")):
        f = m.fn(fname)
        ev = lanes.Evaluator(m)
        paths = ev.run(fname, [LV.input()])
        bad = None
        for p in paths:
            r = p.ret
            if isinstance(r, int):
                r = lanes.const_lv(r, 32)
                r = LV(32, off, [tuple(0 for _ in range(16))] * NL) if r.concrete(ev.allowed) == 0 else None
            if not isinstance(r, LV) or r.chain is not None:
                raise Shape("%s does not return a plain field of the index" % fname)
            # the returned integer, re-addressed to h coordinates, must be exactly the field
            if r.off != off:
                raise Shape("%s returns a value shifted by %d, expected %d" % (fname, r.off, off))

            def lane(j, x):
                mk, _vl = _field_lane(off, width, 0, j)
                return x & mk
            d = LV(64, 0, [tuple(r.tab[j][x * 2] ^ lane(j, x) for x in range(8) for _c in (0, 1)) for j in range(NL)])
            st, bad = lanes.decide(p.allowed, {"returned value differs from the field": F_and(p.cond, lanes.F_atom(lanes.Atom("nz", d)))}, SpecNone(["returned value differs from the field"]))
            if bad:
                break
        _report(ctx, cfg, fname, "getter", f, 1, 0, bad, "returns %s of the index, for every 64-bit value" % what)


class SpecValidEdge:
    """documented isValidDirectedEdge for a fixed (res, base cell) case: mode 2, direction (reserved bits) 1..6, not 1 on a pentagon cell,
    and the origin (same bits with mode 1, reserved 0) a valid cell"""
    text = ("non-zero exactly when the high bit is 0, the mode is 2, the direction field is 1..6 (not 1 when the origin is a pentagon: pentagon base cell "
            "and all digits 0) and the origin cell (mode 1, reserved 0, other bits unchanged) satisfies the documented cell validity")

    def __init__(self, res, bc, pent, nbc):
        self.res, self.bc, self.pent, self.nbc = res, bc, pent, nbc
    def init(self): return (True, 0, 0)      # everything so far ok, first non-zero digit, direction (class after lane 19: 0 invalid, 1 K, 2 other)
    def step(self, j, x, s):
        ok, first, d = s
        if not ok:
            return (False, 0, 0)
        if j <= 14:
            dg = 15 - j
            if dg <= self.res:
                ok = x != 7
                if x != 0:
                    first = x
            else:
                ok = x == 7
        elif j == 18:
            d = (x >> 2) & 1                       # bit 56: direction bit 0
        elif j == 19:
            d |= (x & 3) << 1                      # bits 57,58: direction bits 1,2
            ok = (x & 4) == 0 and 1 <= d <= 6      # bit 59: mode bit 0 must be 0
            d = 1 if d == 1 else 2
        elif j == 20:
            ok = x == 1                            # bits 60..62: mode bits 1..3 = 1,0,0  (mode 2)
        elif j == 21:
            ok = x == 0
        return (ok, first, d) if ok else (False, 0, 0)
    def final(self, s):
        ok, first, d = s
        good = ok and self.bc < self.nbc
        good = good and not (self.pent and first == 1)               # origin's deleted sub-sequence
        good = good and not (self.pent and first == 0 and d == 1)    # K direction from a pentagon
        return {"ret": good}


def _same_field_as_input(x, off, width):
    """the value carries the input's own bits in the field (so a per-case flag about the input's field applies to it)"""
    for j in range(NL):
        mk, _ = _field_lane(off, width, 0, j)
        if mk and any((x.tab[j][v * 2] & mk) != (v & mk) or (x.tab[j][v * 2 + 1] & mk) != (v & mk) for v in range(8)):
            return False
    return True


def _isvalidcell_model(bcvalid, pent):
    """documented meaning of isValidCell (decided for the real code by check_validity, for all 2^64 values) for an argument that has the input's
    own base-cell field, under the case flags 'base cell < 122' and 'base cell is a pentagon'"""
    def model(ev, cargs, al, inst):
        x = cargs[0]
        if isinstance(x, int):
            x = lanes.const_lv(x)
        if not isinstance(x, LV) or x.off != 0 or not _same_field_as_input(x, BC_OFF, BC_W):
            raise Shape("isValidCell applied to a value whose base-cell field is not the input's")
        resf = x.masked(0xF << RES_OFF).concrete(al)
        if resf is None:
            raise Shape("isValidCell applied to an index whose resolution is not fixed by the case split")
        res = resf >> RES_OFF
        if not bcvalid:
            return 0
        A = lambda lv: lanes.F_atom(lanes.Atom("nz", lv))
        top = x.masked(0xFF << 56)
        top = LV(64, 0, [tuple(v ^ k for v in top.tab[j]) for j, k in enumerate(lanes.lanes_of(0x08 << 56))]).masked(0xFF << 56)
        f_ = F_not(A(top))
        m7 = 0
        for d in range(1, res + 1):
            m7 |= 7 << (3 * (15 - d))
        # a digit 1..res equal to 7  <=>  (digit ^ 7) == 0 for some digit: per-lane test via a table that is non-zero exactly on 7
        has7 = LV(64, 0, [tuple((1 if (15 - res <= j <= 14 and v == 7) else 0) for v in x.tab[j]) for j in range(NL)], x.chain)
        f_ = F_and(f_, F_not(A(has7)))
        not7 = LV(64, 0, [tuple((1 if (j <= 14 - res and v != 7) else 0) for v in x.tab[j]) for j in range(NL)], x.chain)
        f_ = F_and(f_, F_not(A(not7)))
        if pent:
            dig = x.masked((1 << 45) - 1)
            f_ = F_and(f_, F_not(lanes.F_atom(lanes.Atom("top", dig, (lambda p: p is not None and p % 3 == 0)))))
        return BI(f_, 32)
    return model


def _ispent_model_checked(pent):
    inner = _ispent_model(pent)

    def model(ev, cargs, al, inst):
        x = cargs[0]
        if isinstance(x, LV) and not _same_field_as_input(x, BC_OFF, BC_W):
            raise Shape("isPentagon applied to a value whose base-cell field is not the input's")
        return inner(ev, cargs, al, inst)
    return model


def chk_valid_edge(ctx, m, cfg):
    fname = "isValidDirectedEdge"
    f = m.fn(fname)
    n = states = 0
    bad = None
    casetxt = ""
    for res, allowed in _res_cases():
        for bcvalid, pent in ((False, False), (True, False), (True, True)):
            ev = lanes.Evaluator(m, allowed)
            ev.models["isPentagon"] = _ispent_model_checked(pent)
            ev.models["isValidCell"] = _isvalidcell_model(bcvalid, pent)
            fm = ret_formula(ev.run(fname, [LV.input()]))
            st, bad = lanes.decide(allowed, {"ret": fm}, SpecValidEdge(res, 0 if bcvalid else 127, pent, 122))
            states += st; n += 1
            if bad:
                casetxt = " [base cell field %s]" % ("of a pentagon" if pent else ("of a hexagon" if bcvalid else ">= 122"))
                bad = ("returns %d" % int(bad[1]), bad[1], bad[2], bad[3])
                break
        if bad:
            break
    _report(ctx, cfg, fname, "valid-edge", f, n, states, bad, SpecValidEdge.text + " - for all 2^64 values (isPentagon / isValidCell taken with their documented meaning, "
            "which check_validity and chk_ispentagon decide for the code itself)", casetxt)


INDEXOPS["getters"] = (chk_getters, ["C01"])
INDEXOPS["valid-edge"] = (chk_valid_edge, ["C10"])


# ====================================================================== closure of validity under the index-producing operations (C01, 2nd sentence)
def _valid_formula(x, res, bcvalid, pent):
    """formula 'x satisfies the documented cell validity' for a value x with known resolution `res`, the input's own base-cell field and the
    case flags (base cell < 122, base cell is a pentagon)"""
    if not bcvalid:
        return F_const(False)
    if isinstance(x, int):
        x = lanes.const_lv(x)
    if not isinstance(x, LV) or x.off != 0 or not _same_field_as_input(x, BC_OFF, BC_W):
        raise Shape("result does not carry the input's base-cell field")
    A = lambda lv: lanes.F_atom(lanes.Atom("nz", lv))
    top = x.masked(0xFF << 56)
    top = LV(64, 0, [tuple(v ^ k for v in top.tab[j]) for j, k in enumerate(lanes.lanes_of(0x08 << 56))]).masked(0xFF << 56)
    f_ = F_not(A(top))
    rl = LV(64, 0, [tuple(v ^ k for v in x.masked(0xF << RES_OFF).tab[j]) for j, k in enumerate(lanes.lanes_of(res << RES_OFF))]).masked(0xF << RES_OFF)
    f_ = F_and(f_, F_not(A(rl)))
    has7 = LV(64, 0, [tuple((1 if (15 - res <= j <= 14 and v == 7) else 0) for v in x.tab[j]) for j in range(NL)], x.chain)
    not7 = LV(64, 0, [tuple((1 if (j <= 14 - res and v != 7) else 0) for v in x.tab[j]) for j in range(NL)], x.chain)
    f_ = F_and(f_, F_and(F_not(A(has7)), F_not(A(not7))))
    if pent:
        f_ = F_and(f_, F_not(lanes.F_atom(lanes.Atom("top", x.masked((1 << 45) - 1), (lambda p: p is not None and p % 3 == 0)))))
    return f_


class SpecInputValid:
    """tracks whether the INPUT satisfies the documented validity (for a fixed resolution and base-cell class); the named formulas
    ('the result is not valid') must be false whenever it does, and are unconstrained otherwise"""
    def __init__(self, res, bcvalid, pent, names, top=0x08, topmask=0xFF):
        self.res, self.bcvalid, self.pent, self.names = res, bcvalid, pent, names
        self.ml, self.vl = lanes.lanes_of(topmask << 56), lanes.lanes_of(top << 56)
    def init(self): return (True, 0)
    def step(self, j, x, s):
        ok, first = s
        if j <= 14:
            d = 15 - j
            if d <= self.res:
                ok = ok and x != 7
                if x != 0:
                    first = x
            else:
                ok = ok and x == 7
        ok = ok and (x & self.ml[j]) == self.vl[j]
        return (ok, first)
    def final(self, s):
        ok, first = s
        valid = ok and self.bcvalid and not (self.pent and first == 1)
        return {n: (False if valid else None) for n in self.names}


def chk_closure(ctx, m, cfg):
    """valid input cell (and arguments in the documented domain)  =>  the index that is returned / stored is a valid cell of the requested resolution"""
    insts = [("cellToParent", "h", "parentRes", "out", lambda res: range(0, res + 1)),
             ("cellToCenterChild", "h", "childRes", "child", lambda res: range(res, 16))]
    for fname, hn, rn, on, dom in insts:
        f = m.fn(fname)
        hk, rk, ok_ = f.arg_index(hn), f.arg_index(rn), f.arg_index(on)
        if None in (hk, rk, ok_):
            raise AnalysisBroken("%s: parameters not found" % fname)
        n = states = 0
        bad = None
        casetxt = ""
        for res, allowed in _res_cases():
            for r2 in dom(res):
                for pent in (False, True):
                    ev = lanes.Evaluator(m, allowed)
                    args = [None] * len(f.args)
                    args[hk], args[rk], args[ok_] = LV.input(), r2, lanes.argptr(ok_)
                    paths = ev.run(fname, args)
                    g = F_const(False)
                    for p in paths:
                        st_ = p.stored(ok_)
                        if not isinstance(p.ret, int):
                            raise Shape("index-dependent code")
                        if p.ret != 0 or st_ is None:
                            g = F_or(g, p.cond)          # a valid input in the documented domain must succeed and store
                        else:
                            g = F_or(g, F_and(p.cond, F_not(_valid_formula(st_, r2, True, pent))))
                    nm = "the stored index is not a valid cell of resolution %d" % r2
                    st, bad = lanes.decide(allowed, {nm: g}, SpecInputValid(res, True, pent, [nm]))
                    states += st; n += 1
                    if bad:
                        casetxt = ", %s=%d [%s base cell]" % (rn, r2, "pentagon" if pent else "hexagon")
                        break
                if bad:
                    break
            if bad:
                break
        _report(ctx, cfg, fname, "closure", f, n, states, bad, "for every VALID cell h and every resolution in the documented domain the stored index is again a valid cell of that resolution", casetxt)
    # edge origin: a valid directed edge has a valid origin cell
    fname = "getDirectedEdgeOrigin"
    f = m.fn(fname)
    ek, ok_ = f.arg_index("edge"), f.arg_index("out")
    n = states = 0
    bad = None
    for res, allowed in _res_cases():
        allowed = assume_field(allowed, MODE_OFF, MODE_W, 2)
        for pent in (False, True):
            ev = lanes.Evaluator(m, allowed)
            args = [None] * len(f.args)
            args[ek], args[ok_] = LV.input(), lanes.argptr(ok_)
            g = F_const(False)
            for p in ev.run(fname, args):
                st_ = p.stored(ok_)
                if p.ret != 0 or st_ is None:
                    g = F_or(g, p.cond)
                else:
                    g = F_or(g, F_and(p.cond, F_not(_valid_formula(st_, res, True, pent))))
            nm = "the origin of an edge over a valid cell is not a valid cell"
            # input: mode 2, any direction, digits/base cell of a valid cell  (top bits 0_0010_ddd : mask out the direction bits)
            st, bad = lanes.decide(allowed, {nm: g}, SpecInputValid(res, True, pent, [nm], top=0x10, topmask=0xF8))
            states += st; n += 1
            if bad:
                break
        if bad:
            break
    _report(ctx, cfg, fname, "closure", f, n, states, bad, "for every edge index whose cell part is valid the stored origin is a valid cell")


INDEXOPS["closure"] = (chk_closure, ["C01", "C04", "C10"])


# ====================================================================== enumerators (C03): getRes0Cells, getPentagons, setH3Index
def _doc_cell(res, bc, digit=0):
    """the documented index of the cell (mode 1, res, base cell, digits 1..res = digit, the rest 7)"""
    h = (1 << MODE_OFF) | (res << RES_OFF) | (bc << BC_OFF)
    for d in range(1, 16):
        h |= (digit if d <= res else 7) << (3 * (15 - d))
    return h


def chk_enumerators(ctx, m, cfg):
    pent, nbc = _pentagons(m)
    pents = [b for b in range(nbc) if pent[b]]
    # getRes0Cells
    f = m.fn("getRes0Cells")
    ev = lanes.Evaluator(m)
    paths = ev.run("getRes0Cells", [lanes.argptr(0)])
    bad = None
    if len(paths) != 1 or paths[0].ret != 0:
        raise Shape("getRes0Cells does not have one successful path")
    mem = {k[1]: v[0] for k, v in paths[0].mem.items() if k[0] == ("arg", 0)}
    want = {8 * b: _doc_cell(0, b) for b in range(nbc)}
    if mem != want:
        k = sorted(set(mem) ^ set(want) or [o for o in want if mem.get(o) != want[o]])[0]
        ctx.violation(RULE, "getRes0Cells:cells", "getRes0Cells writes %s at out[%d]; the documented resolution-0 cell of base cell %d is 0x%x (and exactly %d slots are written)"
                      % ("0x%x" % mem[k] if k in mem else "nothing", k // 8, k // 8, want.get(k, 0), nbc), f.where(), {"function": "getRes0Cells", "config": cfg})
    else:
        ctx.ok(RULE, {"function": "getRes0Cells", "cells": nbc, "config": cfg}, "out[b] = documented res-0 index of base cell b for b = 0..%d, nothing else written" % (nbc - 1))
    # getPentagons
    f = m.fn("getPentagons")
    rk, ok_ = f.arg_index("res"), f.arg_index("out")
    nbad = 0
    for res in range(16):
        ev = lanes.Evaluator(m)
        args = [None, None]
        args[rk], args[ok_] = res, lanes.argptr(ok_)
        paths = ev.run("getPentagons", args)
        if len(paths) != 1 or paths[0].ret != 0:
            raise Shape("getPentagons(res=%d) does not have one successful path" % res)
        mem = {k[1]: v[0] for k, v in paths[0].mem.items() if k[0] == ("arg", ok_)}
        want = {8 * i: _doc_cell(res, b) for i, b in enumerate(pents)}
        if mem != want:
            nbad += 1
            k = sorted(set(mem) ^ set(want) or [o for o in want if mem.get(o) != want[o]])[0]
            ctx.violation(RULE, "getPentagons:cells", "getPentagons(res=%d) writes %s at out[%d]; documented: the %d pentagon cells (base cells %s, all digits 0) in base-cell order, e.g. 0x%x there"
                          % (res, "0x%x" % mem[k] if k in mem else "nothing", k // 8, len(pents), pents, want.get(k, 0)), f.where(), {"function": "getPentagons", "res": res, "config": cfg})
            break
    if not nbad:
        ctx.ok(RULE, {"function": "getPentagons", "cases": 16, "config": cfg}, "for res 0..15 exactly the %d pentagon cells of baseCellData are written, each the documented valid index" % len(pents))
    # setH3Index over its whole documented domain in thorough runs, bit-pattern base cells otherwise
    f = m.fn("setH3Index")
    bcs = range(nbc) if getattr(ctx, "tier", "quick") == "thorough" else sorted({0, 1, 2, 4, 8, 16, 32, 64, 85, 42, 121})
    n = 0
    for res in range(16):
        for bc in bcs:
            for dg in range(8):
                ev = lanes.Evaluator(m)
                paths = ev.run("setH3Index", [lanes.argptr(0), res, bc, dg])
                n += 1
                got = paths[0].stored(0) if len(paths) == 1 else None
                if got != _doc_cell(res, bc, dg):
                    ctx.violation(RULE, "setH3Index:value", "setH3Index(res=%d, baseCell=%d, digit=%d) stores %s; documented 0x%x" % (res, bc, dg, "0x%x" % got if got is not None else None, _doc_cell(res, bc, dg)),
                                  f.where(), {"function": "setH3Index", "config": cfg})
                    return
    ctx.ok(RULE, {"function": "setH3Index", "cases": n, "config": cfg}, "stores mode 1, the resolution, the base cell, digits 1..res = the digit and 7 beyond, for %d argument triples" % n)


INDEXOPS["enumerators"] = (chk_enumerators, ["C03"])


# ====================================================================== child position = rank in index order (C13)
def _ls_equal(ls, allowed, const, lane_fn):
    """the digit sum equals const + sum_j lane_fn(j, x_j) for every allowed input: None or (lane, x, got, expected)"""
    if isinstance(ls, int):
        ls = lanes.LS(ls - (1 << 64) if ls >> 63 else ls, {})
    if isinstance(ls, LV):
        ls = lanes.lv_to_lf(ls)
    if isinstance(ls, lanes.LF):
        ls = lanes.LS(0, {ls.lane: tuple((t - (1 << ls.width)) if t >> (ls.width - 1) else t for t in ls.tab)})
    if not isinstance(ls, lanes.LS):
        raise Shape("the stored position is not a sum of per-digit contributions")
    total = ls.const - const
    for j in range(NL):
        t = ls.lanes.get(j, (0,) * 8)
        ds = {x: t[x] - lane_fn(j, x) for x in allowed[j]}
        vals = set(ds.values())
        if len(vals) != 1:
            base = ds[allowed[j][0]]
            x = next(x for x in allowed[j] if ds[x] != base)
            return (j, x, t[x], lane_fn(j, x))
        total += vals.pop()
    if total != 0:
        return (-1, 0, ls.const, const)
    return None


def _pent_children(m_):
    return 1 + 5 * (7 ** m_ - 1) // 6


def _childpos_cases():
    for c in range(16):
        base = assume_field(free_lanes(), RES_OFF, RES_W, c)
        for p in range(c + 1):
            al = [list(a) for a in base]
            for d in range(p + 1, c + 1):
                al[15 - d] = list(range(7))
            yield c, p, None, al                        # the parent is not a pentagon cell
            alp = [list(a) for a in base]
            for d in range(1, p + 1):
                alp[15 - d] = [0]
            al0 = [list(a) for a in alp]
            for d in range(p + 1, c + 1):
                al0[15 - d] = [0]
            yield c, p, 0, al0                          # pentagon parent, the centre child chain
            for k in range(p + 1, c + 1):
                al = [list(a) for a in alp]
                for d in range(p + 1, c + 1):
                    al[15 - d] = [0] if d < k else (list(range(2, 7)) if d == k else list(range(7)))
                yield c, p, k, al                       # pentagon parent, first non-zero digit at k


def _childpos_case(args):
    c, p, k, al = args
    m = _WM
    f = m.fn("cellToChildPos")
    ck, pk, ok_ = f.arg_index("child"), f.arg_index("parentRes"), f.arg_index("out")
    try:
        ev = lanes.Evaluator(m, al)
        ev.merge = True
        ev.models["isPentagon"] = _ispent_model(k is not None)
        # the internal re-validation of the computed position (NEVER(validateChildPos(..)): decided exhaustively by R-CFORM) is taken to pass;
        # a position that differs from the rank is reported below in any case
        ev.models["validateChildPos"] = lambda ev_, cargs, al_, inst: 0
        a = [None] * len(f.args)
        a[ck], a[pk], a[ok_] = LV.input(), p, lanes.argptr(ok_)
        paths = ev.run("cellToChildPos", a)
        if k is None:
            const, fn = 0, (lambda j, x: x * 7 ** (c - (15 - j)) if p < 15 - j <= c else 0)
        elif k == 0:
            const, fn = 0, (lambda j, x: 0)
        else:
            const = _pent_children(c - k)
            fn = (lambda j, x: ((x - 2) * 7 ** (c - k) if 15 - j == k else (x * 7 ** (c - (15 - j)) if k < 15 - j <= c else 0)))
        for pth in paths:
            wit = sum(pth.allowed[j][0] << (3 * j) for j in range(NL))
            if not all((a_.kind == "nz" and lanes.lv_single_lane(a_.lv) is not None) for a_ in lanes.f_atoms(pth.cond, [])):
                return 0, None, "childRes=%d parentRes=%d: a path condition over several digits remains" % (c, p)
            if pth.ret != 0:
                return 1, ("returns %s for a valid child" % pth.ret, wit, (c, p, k)), None
            bad = _ls_equal(pth.stored(ok_), pth.allowed, const, fn)
            if bad:
                j, x, got, exp = bad
                if j >= 0:
                    wit = (wit & ~(7 << (3 * j))) | (x << (3 * j))
                    msg = "digit %d = %d contributes %d to the position; its rank contribution is %d" % (15 - j, x, got, exp)
                else:
                    msg = "the position is offset by %d from the rank" % (got - exp)
                return 1, (msg, wit, (c, p, k)), None
    except Shape as e:
        return 0, None, "childRes=%d parentRes=%d: %s" % (c, p, e)
    return 1, None, None


def chk_childpos(ctx, m, cfg):
    fname = "cellToChildPos"
    f = m.fn(fname)
    text = ("for every valid child of a resolution-p cell: success and *out = its RANK among the children in index order - hexagon parent: the digits p+1..c read as a base-7 "
            "number; pentagon parent with first non-zero digit v at k: (1 + 5(7^(c-k) - 1)/6) + (v - 2) 7^(c-k) + the digits after k as a base-7 number (the deleted 1 is skipped); "
            "all-zero digits: 0.  With the iterator induction of C04 (cellToChildren lists the children in index order) position i is the i-th element")
    results = _pmap(_childpos_case, list(_childpos_cases()), m)
    for r in results:
        if r[2]:
            raise Shape(r[2])
    bad = next((r[1] for r in results if r[1]), None)
    n = sum(r[0] for r in results)
    if bad:
        msg, wit, (c, p, k) = bad
        ctx.violation(RULE, "cellToChildPos:rank", "cellToChildPos(%s, parentRes=%d): %s; documented: %s" % (fmt_digits(wit), p, msg, text), f.where(),
                      {"function": fname, "witness": "0x%x" % wit, "config": cfg})
    else:
        ctx.ok(RULE, {"function": fname, "cases": n, "config": cfg, "inputs_covered": "all valid children per (childRes, parentRes, pentagon family) case"},
               "%s: %s (%d cases; per-digit contribution tables compared with the rank formula)" % (fname, text, n))


INDEXOPS["child-pos"] = (chk_childpos, ["C13"])


def _posToCell_case(args):
    c, p, k, al = args
    m = _WM
    f = m.fn("childPosToCell")
    qk, pk, ck, ok_ = f.arg_index("childPos"), f.arg_index("parent"), f.arg_index("childRes"), f.arg_index("child")
    try:
        al = [list(a) for a in al]
        # the parent: the input's upper fields and digits 1..p, resolution p, digits p+1..15 = 7
        par = LV.input()
        tab = list(par.tab)
        for d in range(p + 1, 16):
            tab[15 - d] = tuple(7 for _ in range(16))
        par = LV(64, 0, tab)
        kl = lanes.lanes_of(p << RES_OFF)
        ml = lanes.lanes_of(0xF << RES_OFF)
        par = LV(64, 0, [tuple((v & ~ml[j] & 7) | kl[j] for v in par.tab[j]) for j in range(NL)])
        # the position: the rank of the child whose digits p+1..c are the input lanes (see chk_childpos)
        if k is None:
            pos = lanes.LS(0, {15 - r: tuple(x * 7 ** (c - r) for x in range(8)) for r in range(p + 1, c + 1)})
        elif k == 0:
            pos = 0
        else:
            ln = {15 - k: tuple((x - 2) * 7 ** (c - k) for x in range(8))}
            for r in range(k + 1, c + 1):
                ln[15 - r] = tuple(x * 7 ** (c - r) for x in range(8))
            pos = lanes.LS(_pent_children(c - k), ln)
        ev = lanes.Evaluator(m, al)
        ev.merge = True
        ev.models["isPentagon"] = _ispent_model(k is not None)
        a = [None] * len(f.args)
        a[qk], a[pk], a[ck], a[ok_] = pos, par, c, lanes.argptr(ok_)
        paths = ev.run("childPosToCell", a)

        def lane(j, x):
            if j <= 14:
                return x if 15 - j <= c else 7
            mk, vl = _field_lane(RES_OFF, RES_W, c, j)
            return (x & ~mk & 7) | vl
        for pth in paths:
            wit = sum(pth.allowed[j][0] << (3 * j) for j in range(NL))
            if pth.ret != 0:
                return 1, ("returns %s for the position of a valid child" % pth.ret, wit, (c, p, k)), None
            st_ = pth.stored(ok_)
            d = lanes.diff_lv(st_, lane)
            for j in range(NL):
                for x in pth.allowed[j]:
                    if d.tab[j][x * 2]:
                        wit = (wit & ~(7 << (3 * j))) | (x << (3 * j))
                        got = st_.tab[j][x * 2] if isinstance(st_, LV) else (st_ >> (3 * j)) & 7
                        return 1, ("for the position of the child with digit %d = %d the result has %d in that lane" % (15 - j, x, got), wit, (c, p, k)), None
    except Shape as e:
        return 0, None, "childRes=%d parentRes=%d family %s: %s" % (c, p, k, e)
    return 1, None, None


def _posToCell_reject(args):
    """positions outside 0 .. cellToChildrenSize-1 are rejected with E_DOMAIN and nothing is stored, for every parent"""
    c, p, pent = args
    m = _WM
    f = m.fn("childPosToCell")
    qk, pk, ck, ok_ = f.arg_index("childPos"), f.arg_index("parent"), f.arg_index("childRes"), f.arg_index("child")
    try:
        al = assume_field(free_lanes(), RES_OFF, RES_W, p)
        if pent:
            for d in range(1, p + 1):
                al[15 - d] = [0]
        count = _pent_children(c - p) if pent else 7 ** (c - p)
        for pos in (-1, count, count + 1, (1 << 63) - 1, -(1 << 63)):
            ev = lanes.Evaluator(m, al)
            ev.models["isPentagon"] = _ispent_model(pent)
            a = [None] * len(f.args)
            a[qk], a[pk], a[ck], a[ok_] = pos & ((1 << 64) - 1), LV.input(), c, lanes.argptr(ok_)
            for pth in ev.run("childPosToCell", a):
                wit = sum(pth.allowed[j][0] << (3 * j) for j in range(NL))
                if pth.ret != 2 or pth.stored(ok_) is not None:
                    return 1, ("position %d of %d children: returns %s%s; documented E_DOMAIN (2) and no result" % (pos, count, pth.ret, "" if pth.stored(ok_) is None else " and stores a cell"), wit, (c, p, pent)), None
    except Shape as e:
        return 0, None, "childRes=%d parentRes=%d: %s" % (c, p, e)
    return 1, None, None


def chk_postocell(ctx, m, cfg):
    fname = "childPosToCell"
    f = m.fn(fname)
    rej = _pmap(_posToCell_reject, [(c, p, pent) for c in range(16) for p in range(c + 1) for pent in (False, True)], m)
    for r in rej:
        if r[2]:
            raise Shape(r[2])
    badr = next((r[1] for r in rej if r[1]), None)
    if badr:
        msg, wit, (c, p, pent) = badr
        ctx.violation(RULE, "childPosToCell:range", "childPosToCell(parent %s, childRes %d): %s" % (fmt_digits(wit), c, msg), f.where(), {"function": fname, "config": cfg})
    else:
        ctx.ok(RULE, {"function": fname, "clause": "positions outside the range", "cases": sum(r[0] for r in rej), "config": cfg},
               "positions -1, count, count+1, INT64_MAX, INT64_MIN are rejected with E_DOMAIN without a store for every parent, for all 136 resolution pairs x {hexagon, pentagon}")
    text = ("given the RANK of a valid child (as decided for cellToChildPos) and its parent, childPosToCell succeeds and stores exactly that child: parent bits kept, resolution "
            "= childRes, digits p+1..c = the child's digits; so the two functions are mutually inverse on the children and their positions")
    results = _pmap(_posToCell_case, list(_childpos_cases()), m)
    for r in results:
        if r[2]:
            raise Shape(r[2])
    bad = next((r[1] for r in results if r[1]), None)
    n = sum(r[0] for r in results)
    if bad:
        msg, wit, (c, p, k) = bad
        ctx.violation(RULE, "childPosToCell:inverse", "childPosToCell(rank of %s, parentRes %d, childRes %d): %s; documented: %s" % (fmt_digits(wit), p, c, msg, text), f.where(),
                      {"function": fname, "witness": "0x%x" % wit, "config": cfg})
    else:
        ctx.ok(RULE, {"function": fname, "cases": n, "config": cfg, "inputs_covered": "the positions of all valid children per (childRes, parentRes, pentagon family) case"},
               "%s: %s (%d cases)" % (fname, text, n))


INDEXOPS["pos-to-cell"] = (chk_postocell, ["C13"])
