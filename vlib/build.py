"""Build step: /repo working tree -> LLVM IR modules under /verif/.work (DESIGN.md 2.1).

Nothing of h3 is executed; the sources are only compiled to IR and transformed
by a fixed opt pass list.  Results are cached by a hash of the inputs.
"""
import hashlib, json, os, re, shutil, subprocess, sys, time
from concurrent.futures import ThreadPoolExecutor

VERIF = os.path.dirname(os.path.dirname(os.path.abspath(__file__)))
REPO = os.environ.get("H3_REPO", "/repo")
WORK = os.path.join(VERIF, ".work") if REPO == "/repo" else os.path.join(VERIF, ".work", "alt-" + hashlib.sha1(REPO.encode()).hexdigest()[:8])
CLANG = "clang-14" if shutil.which("clang-14") else "clang"
LLVM_LINK = "llvm-link-14"
OPT = "opt-14"

class AnalysisBroken(Exception):
    """exit 2: the analysis cannot interpret the tree (never a pass, never a violation)"""

CONFIGS = {
    # the release configuration the test-suite runs
    "release": ["-DNDEBUG"],
    # CMake Debug: assertions on (NEVER/ALWAYS become asserts)
    "assert": ["-UNDEBUG"],
    # custom allocator configuration
    "prefix": ["-DNDEBUG", "-DH3_ALLOC_PREFIX=vp_"],
}

def lib_units(repo=None):
    repo = repo or REPO
    txt = open(os.path.join(repo, "CMakeLists.txt")).read()
    m = re.search(r"set\(LIB_SOURCE_FILES(.*?)\)", txt, re.S)
    if not m:
        raise AnalysisBroken("LIB_SOURCE_FILES not found in CMakeLists.txt")
    files = m.group(1).split()
    units = [f for f in files if f.endswith(".c")]
    for u in units:
        if not os.path.exists(os.path.join(repo, u)):
            raise AnalysisBroken("unit listed in CMakeLists.txt is missing: " + u)
    if len(units) < 10:
        raise AnalysisBroken("fewer than 10 library units found")
    return units

def gen_h3api(repo, outdir):
    src = open(os.path.join(repo, "src/h3lib/include/h3api.h.in")).read()
    ver = open(os.path.join(repo, "VERSION")).read().strip()
    m = re.match(r"(\d+)\.(\d+)\.(\d+)", ver)
    if not m:
        raise AnalysisBroken("VERSION not parseable")
    for k, v in zip(("MAJOR", "MINOR", "PATCH"), m.groups()):
        src = src.replace("@H3_VERSION_%s@" % k, v)
    os.makedirs(outdir, exist_ok=True)
    with open(os.path.join(outdir, "h3api.h"), "w") as f:
        f.write(src)

def _input_hash(repo, cfg, extra=""):
    h = hashlib.sha256()
    roots = [os.path.join(repo, "src/h3lib")]
    for root in roots:
        for d, _, fs in sorted(os.walk(root)):
            for fn in sorted(fs):
                p = os.path.join(d, fn)
                h.update(p.encode()); h.update(open(p, "rb").read())
    for fn in ("CMakeLists.txt", "VERSION"):
        h.update(open(os.path.join(repo, fn), "rb").read())
    h.update(json.dumps(CONFIGS[cfg]).encode()); h.update(extra.encode())
    h.update(open(__file__, "rb").read())
    return h.hexdigest()[:20]

SSA_PASSES = "function(mem2reg,sroa,early-cse,instcombine,simplifycfg),cgscc(function-attrs)"
INL_PASSES = ("function(mem2reg),cgscc(inline),function(sroa,early-cse,instcombine,simplifycfg),"
              "cgscc(function-attrs)")

def run(cmd, **kw):
    r = subprocess.run(cmd, stdout=subprocess.PIPE, stderr=subprocess.PIPE, text=True, **kw)
    if r.returncode != 0:
        raise AnalysisBroken("command failed: %s\n%s" % (" ".join(cmd), r.stderr[-4000:]))
    return r.stdout

def base_flags(cfg, gen_inc, repo=None):
    repo = repo or REPO
    return ["-std=gnu11", "-DBUILDING_H3=1", '-DH3_PREFIX=', "-I" + gen_inc,
            "-I" + os.path.join(repo, "src/h3lib/include")] + CONFIGS[cfg]

def build(cfg="release", want=("ssa",), repo=None, extra_sources=()):
    """Returns dict with paths: raw, ssa, inl (as requested), units, dir.  Serialised per configuration with a file lock: checks of several
    properties started at the same moment after a source change would otherwise remove each other's half-built cache directory."""
    import fcntl
    os.makedirs(WORK, exist_ok=True)
    with open(os.path.join(WORK, cfg + ".lock"), "w") as lk:
        fcntl.flock(lk, fcntl.LOCK_EX)
        return _build(cfg, want, repo, extra_sources)


def _build(cfg, want, repo, extra_sources):
    repo = repo or REPO
    t0 = time.time()
    units = lib_units(repo)
    key = _input_hash(repo, cfg, "|".join(extra_sources))
    d = os.path.join(WORK, cfg)
    stamp = os.path.join(d, "stamp.json")
    st = None
    if os.path.exists(stamp):
        try:
            st = json.load(open(stamp))
        except Exception:
            st = None
    if not st or st.get("key") != key:
        shutil.rmtree(d, ignore_errors=True)
        os.makedirs(d)
        gen = os.path.join(d, "gen")
        gen_h3api(repo, gen)
        flags = base_flags(cfg, gen, repo) + ["-O1", "-Xclang", "-disable-llvm-passes", "-g",
                                         "-fno-discard-value-names", "-emit-llvm", "-c"]
        def one(u):
            out = os.path.join(d, os.path.basename(u)[:-2] + ".bc")
            run([CLANG] + flags + [os.path.join(repo, u), "-o", out])
            return out
        with ThreadPoolExecutor(16) as ex:
            bcs = list(ex.map(one, units))
        run([LLVM_LINK] + bcs + ["-o", os.path.join(d, "h3.bc")])
        st = {"key": key, "units": units, "have": ["raw"]}
        json.dump(st, open(stamp, "w"))
    res = {"dir": d, "units": st["units"], "raw": os.path.join(d, "h3.bc"), "gen": os.path.join(d, "gen")}
    changed = False
    if "ssa" in want or "inl" in want:
        p = os.path.join(d, "h3.ssa.bc")
        if "ssa" not in st["have"]:
            run([OPT, "-passes=" + SSA_PASSES, res["raw"], "-o", p])
            st["have"].append("ssa"); changed = True
        res["ssa"] = p
    if "inl" in want:
        p = os.path.join(d, "h3.inl.bc")
        if "inl" not in st["have"]:
            run([OPT, "-passes=" + INL_PASSES, "-inline-threshold=1000000", res["raw"], "-o", p])
            st["have"].append("inl"); changed = True
        res["inl"] = p
    if changed:
        json.dump(st, open(stamp, "w"))
    res["build_s"] = round(time.time() - t0, 2)
    return res

if __name__ == "__main__":
    print(json.dumps(build(sys.argv[1] if len(sys.argv) > 1 else "release", ("ssa", "inl")), indent=1))
