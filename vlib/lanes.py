"""Bit-lane transducer domain (DESIGN.md 2.4 R-BITPROV).

An exact abstract interpretation for the library's bit-twiddling code over ONE 64-bit index `h`.

The 64 bits of h are cut into 22 lanes of 3 bits (lane j = bits 3j..3j+2; lane 14 is digit 1, lane 0 digit 15, lane 21 is
bit 63 alone).  An abstract 64-bit value (LV) is, per lane, a table  (input lane value x_j, carry-in c_j) -> output lane value:
a finite-state transducer that reads h lane by lane.  Bitwise operators with constants or with other values derived from the
same h act lane-wise; shifts by constants re-address the lanes (offset); ONE add/sub with a constant introduces a carry chain
(carry-out table per lane).  Values that do not depend on h are ordinary integers (constant propagation under a case split on
the integer parameters / assumed index fields).

Comparisons produce atoms over the transducer (any-lane-nonzero, position of the highest set bit, unsigned order against a
constant); branches on atoms fork the path.  A function is thereby summarised as a set of (path condition, returned value /
stored value).  `decide` then runs the product of all atoms with an automaton for the DOCUMENTED meaning over the 22 lanes
(reachable-state computation, 8 input symbols per lane): every reachable final state is attained by a concrete h, so a
disagreement is a definite violation and comes with a witness index; no disagreement means agreement for all 2^64 values.

Nothing of h3 is executed: the tables are built from the IR instructions' semantics.
"""
from . import ir
from .build import AnalysisBroken
from .tables import Tables

NL = 22
M64 = (1 << 64) - 1
LANE_VALUES = [range(8)] * 21 + [range(2)]


class Shape(AnalysisBroken):
    """the code took a shape the lane domain cannot interpret (ANALYSIS-BROKEN, never a violation)"""


def lanes_of(k):
    return [(k >> (3 * j)) & 7 for j in range(NL)]


class Chain:
    """carry chain of one add/sub: cout[j][x*2+c] -> carry into lane j+1"""
    _n = 0

    def __init__(self, cin0, cout):
        self.cin0 = cin0
        self.cout = cout
        Chain._n += 1
        self.id = Chain._n


class LV:
    """lane value: value bit p (0 <= p < width) = bit (p+off) of the transducer output, 0 when p+off is outside 0..63"""
    __slots__ = ("width", "off", "tab", "chain")

    def __init__(self, width, off, tab, chain=None):
        self.width, self.off, self.tab, self.chain = width, off, tab, chain

    @staticmethod
    def input():
        return LV(64, 0, [tuple(x for x in range(8) for _c in (0, 1)) for _j in range(NL)])

    def window(self):
        """h-coordinate mask of the positions that carry value bits"""
        lo = max(self.off, 0)
        hi = min(self.off + self.width - 1, 63)
        if hi < lo:
            return 0
        return ((1 << (hi + 1)) - 1) & ~((1 << lo) - 1)

    def masked(self, mask):
        ml = lanes_of(mask)
        return LV(self.width, self.off, [tuple(v & ml[j] for v in self.tab[j]) for j in range(NL)], self.chain)

    def depends_on_carry(self):
        return any(t[e] != t[e ^ 1] for t in self.tab for e in range(0, 16, 2))

    def concrete(self, allowed):
        """the integer this value always has under the assumed lanes, else None"""
        if self.chain is not None and self.depends_on_carry():
            return None
        q = 0
        for j in range(NL):
            vals = {self.tab[j][x * 2] for x in allowed[j]}
            if len(vals) != 1:
                return None
            q |= vals.pop() << (3 * j)
        q &= M64
        v = (q >> self.off) if self.off >= 0 else (q << -self.off)
        return v & ((1 << self.width) - 1)


def const_to_h(k, width, off):
    """(constant in h coordinates, constant bits that fall outside the 64 h positions)"""
    k &= (1 << width) - 1
    if off >= 0:
        kh = (k << off)
        return kh & M64, kh >> 64
    return k >> (-off), k & ((1 << -off) - 1)


class LI:
    """integer derived from the position of the highest set bit of an LV: fn(position in value coordinates | None if zero) -> int"""
    __slots__ = ("lv", "fn", "width")

    def __init__(self, lv, fn, width):
        self.lv, self.fn, self.width = lv, fn, width


class LF:
    """an integer that is a function of ONE input lane (no carry): tab[x] for the 8 lane values, `width` bits, unsigned representation"""
    __slots__ = ("lane", "tab", "width")

    def __init__(self, lane, tab, width):
        self.lane, self.tab, self.width = lane, tuple(tab), width


class LS:
    """const + sum over lanes of tab[lane][x]: a mathematical integer accumulated from per-digit contributions (child positions)"""
    __slots__ = ("const", "lanes", "width")

    def __init__(self, const, lanes, width=64):
        self.const, self.lanes, self.width = const, dict(lanes), width

    def rng(self, allowed):
        lo = hi = self.const
        for j, t in self.lanes.items():
            vs = [t[x] for x in allowed[j]]
            lo += min(vs); hi += max(vs)
        return lo, hi


def lv_single_lane(v):
    """lane index if the chain-free LV is non-zero in exactly one lane, else None"""
    if not isinstance(v, LV) or (v.chain is not None and v.depends_on_carry()):
        return None
    nz = [j for j in range(NL) if any(v.tab[j])]
    return nz[0] if len(nz) == 1 else None


def lv_to_lf(v):
    j = lv_single_lane(v)
    if j is None:
        return None
    tab = []
    for x in range(8):
        q = v.tab[j][x * 2] << (3 * j)
        val = (q >> v.off) if v.off >= 0 else (q << -v.off)
        tab.append(val & ((1 << v.width) - 1))
    return LF(j, tab, v.width)


def lf_atom(lf):
    """atom 'the lane function is non-zero'"""
    tab = [tuple(0 for _ in range(16)) for _ in range(NL)]
    tab[lf.lane] = tuple((1 if lf.tab[x] else 0) for x in range(8) for _c in (0, 1))
    return Atom("nz", LV(64, 0, tab))


def same_value(a, b):
    if a is b:
        return True
    if type(a) is not type(b):
        return False
    if isinstance(a, int):
        return a == b
    if isinstance(a, LV):
        return a.off == b.off and a.width == b.width and a.tab == b.tab and a.chain is b.chain
    if isinstance(a, LF):
        return a.lane == b.lane and a.tab == b.tab and a.width == b.width
    if isinstance(a, LS):
        return a.const == b.const and a.lanes == b.lanes
    if isinstance(a, tuple):
        return a == b
    return False


def to_ls(v):
    if isinstance(v, LS):
        return v
    if isinstance(v, int):
        return LS(v, {})
    if isinstance(v, LV):
        v = lv_to_lf(v)
    if isinstance(v, LF):
        return LS(0, {v.lane: v.tab}, v.width)
    return None


def combine_lane(j, st, va, sf, vb, width):
    """value that equals va when input lane j is in st and vb when it is in sf (if-conversion of a branch on lane j); None if not representable"""
    if same_value(va, vb):
        return va
    la = lv_to_lf(va) if isinstance(va, LV) else va
    lb = lv_to_lf(vb) if isinstance(vb, LV) else vb
    def at(v, x):
        if isinstance(v, int):
            return v
        if isinstance(v, LF) and v.lane == j:
            return v.tab[x]
        return None
    if all(isinstance(v, int) or (isinstance(v, LF) and v.lane == j) for v in (la, lb)):
        w = next((v.width for v in (la, lb) if isinstance(v, LF)), width or 64)
        return LF(j, [(at(la, x) if x in st else (at(lb, x) if x in sf else 0)) for x in range(8)], w)
    sa, sb = to_ls(la), to_ls(lb)
    if sa is None or sb is None:
        return None
    for l in set(sa.lanes) | set(sb.lanes):
        if l != j and sa.lanes.get(l, (0,) * 8) != sb.lanes.get(l, (0,) * 8):
            return None
    ta, tb = sa.lanes.get(j, (0,) * 8), sb.lanes.get(j, (0,) * 8)
    lanes_ = dict(sb.lanes)
    lanes_[j] = tuple(((sa.const - sb.const + ta[x]) if x in st else (tb[x] if x in sf else 0)) for x in range(8))
    return LS(sb.const, lanes_)


# ------------------------------------------------------------------ formulas over atoms
class Atom:
    """kinds: 'nz' (lv): some lane output non-zero; 'top' (lv, fn): fn(highest set bit position|None) ; 'cmp' (lv, kh, pred);
    'ne2' (lv, arg=other lv): the two transducers differ on some lane (each may have its own carry chain);
    'carryat' (lv=None, arg=chain, arg2=lane): carry INTO that lane of the chain; 'cfinal' (lv=None, arg=chain): carry out of the last lane.
    'nz' and 'cmp' atoms over equal transducers are the same object (so that a path condition a & !a is recognised)."""
    _pool = {}

    def __new__(cls, kind, lv, arg=None, arg2=None):
        if kind in ("nz", "cmp"):
            if kind == "nz":     # only the zero / non-zero pattern of each lane entry matters
                key = (kind, tuple(tuple(v != 0 for v in t) for t in lv.tab), id(lv.chain) if lv.chain is not None else 0)
            else:
                key = (kind, lv.off, lv.width, tuple(lv.tab), id(lv.chain) if lv.chain is not None else 0, tuple(arg) if arg is not None else None, arg2)
            a = cls._pool.get(key)
            if a is not None:
                return a
            a = object.__new__(cls)
            cls._pool[key] = a
            if len(cls._pool) > 200000:
                cls._pool.clear()
            return a
        return object.__new__(cls)

    def __init__(self, kind, lv, arg=None, arg2=None):
        self.kind, self.lv, self.arg, self.arg2 = kind, lv, arg, arg2


def f_contradictory(f):
    """True when f is a conjunction of literals containing an atom and its negation (cheap infeasible-path pruning)"""
    pos, neg = set(), set()
    stack = [f]
    while stack:
        g = stack.pop()
        if g[0] == "&":
            stack.append(g[1]); stack.append(g[2])
        elif g[0] == "a":
            pos.add(g[1])
        elif g[0] == "n" and g[1][0] == "a":
            neg.add(g[1][1])
        elif g[0] == "c":
            if not g[1]:
                return True
        else:
            return False
    return bool(pos & neg)


def F_const(b): return ("c", bool(b))
def F_atom(a): return ("a", a)


def F_not(f):
    if f[0] == "c":
        return ("c", not f[1])
    if f[0] == "n":
        return f[1]
    return ("n", f)


def F_and(a, b):
    if a[0] == "c":
        return b if a[1] else a
    if b[0] == "c":
        return a if b[1] else b
    return ("&", a, b)


def F_or(a, b):
    return F_not(F_and(F_not(a), F_not(b)))


def F_xor(a, b):
    return F_or(F_and(a, F_not(b)), F_and(F_not(a), b))


def f_atoms(f, out):
    if f[0] == "a":
        if f[1] not in out:
            out.append(f[1])
    elif f[0] == "n":
        f_atoms(f[1], out)
    elif f[0] == "&":
        f_atoms(f[1], out); f_atoms(f[2], out)
    return out


def f_eval(f, val):
    if f[0] == "c":
        return f[1]
    if f[0] == "a":
        return val[f[1]]
    if f[0] == "n":
        return not f_eval(f[1], val)
    return f_eval(f[1], val) and f_eval(f[2], val)


class BI:
    """an i1/iN holding 0 or 1 according to a formula"""
    __slots__ = ("f", "width")

    def __init__(self, f, width=1):
        self.f, self.width = f, width


def _s(v, w):
    return v - (1 << w) if v >> (w - 1) else v


def _icmp(pred, a, b, w):
    if pred == "eq": return a == b
    if pred == "ne": return a != b
    if pred in ("ult", "ugt", "ule", "uge"):
        pass
    else:
        a, b = _s(a, w), _s(b, w)
    p = pred[1:]
    return {"lt": a < b, "gt": a > b, "le": a <= b, "ge": a >= b}[p]


def _width(ty):
    if ty.startswith("i") and ty[1:].isdigit():
        return int(ty[1:])
    raise Shape("non-integer type %s in lane evaluation" % ty)


# ------------------------------------------------------------------ the evaluator
class Path:
    """one way through a function: condition (formula over atoms), returned value, final memory, and the input lanes still allowed
    (branches on a single input digit refine `allowed` in addition to being recorded in `cond`)"""
    __slots__ = ("cond", "ret", "mem", "allowed")

    def __init__(self, cond, ret, mem, allowed):
        self.cond, self.ret, self.mem, self.allowed = cond, ret, mem, allowed

    def stored(self, argk, off=0):
        """value stored at byte offset `off` of the object pointer argument `argk` points to (None if never stored)"""
        e = self.mem.get((("arg", argk), off))
        return None if e is None else e[0]


def argptr(k):
    return ("ptr", ("arg", k), 0)


class Evaluator:
    def __init__(self, m, allowed=None, max_paths=2048, max_steps=200000):
        self.m = m
        self.tabs = Tables(m)
        self.allowed = allowed or [list(r) for r in LANE_VALUES]
        self.max_paths = max_paths
        self.max_steps = max_steps
        self.steps = 0
        self.lift = {}     # memo of lane-local liftings
        self._loc = 0
        self.merge = False  # if-convert branches on one input lane (re-join the two sides at the post-dominator as lane functions)
        self.models = {}   # callee name -> fn(evaluator, args, allowed, inst) -> value: the callee's DOCUMENTED meaning (verified separately)

    # -- values: int | LV | LI | BI | ("ptr", base, byte offset) | ("gptr", operand) | ("gep", ...) | tuple aggregate ("agg", [...]) --
    def norm(self, v, allowed):
        if isinstance(v, LV):
            c = v.concrete(allowed)
            if c is not None:
                return c
        if isinstance(v, BI) and v.f[0] != "c":
            # atoms that the allowed input lanes already decide
            ats = f_atoms(v.f, [])
            sub = {}
            for a in ats:
                if a.kind == "nz" and (a.lv.chain is None or not a.lv.depends_on_carry()):
                    if any(all(a.lv.tab[j][x * 2] for x in allowed[j]) for j in range(NL) if allowed[j]):
                        sub[a] = True
                    elif all(not a.lv.tab[j][x * 2] for j in range(NL) for x in allowed[j]):
                        sub[a] = False
            if sub:
                v = BI(f_subst(v.f, sub), v.width)
        if isinstance(v, BI) and v.f[0] == "c":
            return 1 if v.f[1] else 0
        if isinstance(v, LF):
            vals = {v.tab[x] for x in allowed[v.lane]}
            if len(vals) == 1:
                return vals.pop()
        if isinstance(v, LS):
            c = v.const
            for j, t in v.lanes.items():
                vals = {t[x] for x in allowed[j]}
                if len(vals) != 1:
                    return v
                c += vals.pop()
            return c & ((1 << v.width) - 1)
        return v

    # -- type sizes (bytes) --
    def tsize(self, ty):
        ty = ty.strip()
        if ty.endswith("*"):
            return 8
        if ty.startswith("i") and ty[1:].isdigit():
            return (int(ty[1:]) + 7) // 8
        if ty == "double":
            return 8
        if ty == "float":
            return 4
        a = ir.array_extent(ty)
        if a:
            return a[0] * self.tsize(a[1])
        if ty.startswith("%struct.") or ty.startswith("%union."):
            info = self.m.structs.get(ty[1:])
            if info is None:
                raise Shape("size of unknown type " + ty)
            return info["size"]
        raise Shape("size of type " + ty)

    def gep_offset(self, srcty, idx, inst):
        off = idx[0] * self.tsize(srcty)
        ty = srcty
        for k in idx[1:]:
            if ty.startswith("%struct.") or ty.startswith("%union."):
                info = self.m.structs.get(ty[1:])
                if info is None or not (0 <= k < len(info["fields"])):
                    raise Shape("struct field %d of %s at %s" % (k, ty, inst.where()))
                off += info["fields"][k][1]
                ty = info["fields"][k][0]
            else:
                a = ir.array_extent(ty)
                if not a:
                    raise Shape("getelementptr into %s at %s" % (ty, inst.where()))
                off += k * self.tsize(a[1])
                ty = a[1]
        return off

    # -- memory: {(base, byte offset): (value, size)} --
    def mem_store(self, mem, base, off, v, size, inst):
        m2 = dict(mem)
        for (b, o), (ov, osz) in list(mem.items()):
            if b != base or o + osz <= off or off + size <= o:
                continue
            if o >= off and o + osz <= off + size:
                del m2[(b, o)]
                continue
            if not isinstance(ov, int):
                raise Shape("partial overwrite of an index-derived value in memory at %s" % inst.where())
            del m2[(b, o)]
            for k in range(osz):
                if not (off <= o + k < off + size):
                    m2[(b, o + k)] = ((ov >> (8 * k)) & 0xFF, 1)
        m2[(base, off)] = (v, size)
        return m2

    def mem_load(self, mem, base, off, size, inst):
        e = mem.get((base, off))
        if e is not None and e[1] == size:
            return e[0]
        # assemble from / extract out of integer entries
        out = 0
        for k in range(size):
            got = None
            for (b, o), (ov, osz) in mem.items():
                if b == base and o <= off + k < o + osz:
                    if not isinstance(ov, int):
                        raise Shape("partial load of an index-derived value from memory at %s" % inst.where())
                    got = (ov >> (8 * (off + k - o))) & 0xFF
            if got is None:
                raise Shape("load of memory that was never written at %s" % inst.where())
            out |= got << (8 * k)
        return out

    PHIS_DONE = -2

    def run(self, fname, args, depth=0, mem=None, allowed=None, cond=None):
        """-> list of Path; args: list of values"""
        if depth > 8:
            raise Shape("call depth > 8 at %s" % fname)
        f = self.m.fn(fname)
        if len(args) != len(f.args):
            raise Shape("%s: arity" % fname)
        allowed = allowed if allowed is not None else self.allowed
        out, _arr = self._explore(f, args, depth, [(0, None, {}, cond if cond is not None else F_const(True), mem or {}, allowed)], None)
        return out

    def _ipdom(self, f):
        """immediate post-dominators (block -> block | None), virtual exit = -1"""
        c = getattr(f, "_ipdom_cache", None)
        if c is not None:
            return c
        n = len(f.blocks)
        succs = {b.idx: (list(dict.fromkeys(b.succs())) or [-1]) for b in f.blocks}
        for b in f.blocks:
            if b.term.op in ("ret", "unreachable"):
                succs[b.idx] = [-1]
        full = set(range(n)) | {-1}
        pd = {b: set(full) for b in range(n)}
        pd[-1] = {-1}
        changed = True
        while changed:
            changed = False
            for b in range(n):
                new = set(full)
                for s_ in succs[b]:
                    new &= pd[s_]
                new |= {b}
                if new != pd[b]:
                    pd[b] = new
                    changed = True
        ip = {}
        for b in range(n):
            cands = pd[b] - {b}
            best = None
            for c_ in cands:
                # the immediate one is post-dominated by every other candidate
                if all((o == c_) or (o in pd.get(c_, {-1})) for o in cands):
                    best = c_
            ip[b] = best if best is not None and best >= 0 else None
        f._ipdom_cache = ip
        return ip

    def _phis(self, f, bidx, pred, env, args):
        b = f.blocks[bidx]
        newv = {}
        for p in b.phis():
            for o, inc in zip(p.ops, p.d["inc"]):
                if inc == pred:
                    newv[p.id] = self.val(f, o, env, args)
                    break
            else:
                raise Shape("%s: phi without matching incoming edge" % f.name)
        if newv:
            env = dict(env)
            env.update(newv)
        return env

    def _lane_partition(self, cv, al):
        """(lane, true literal, values for which the condition holds, values for which it does not) when the condition depends on ONE input lane"""
        lf = cv if isinstance(cv, LF) else self.bi_to_lf(cv)
        if lf is None:
            return None
        j = lf.lane
        st = [x for x in al[j] if lf.tab[x] & 1]
        sf = [x for x in al[j] if not (lf.tab[x] & 1)]
        lit = cv.f if isinstance(cv, BI) else F_atom(lf_atom(LF(j, [v & 1 for v in lf.tab], 1)))
        return j, lit, st, sf

    def bi_to_lf(self, v):
        if not isinstance(v, BI):
            return None
        f_ = v.f
        neg = f_[0] == "n"
        a = f_[1] if neg else f_
        if a[0] != "a" or a[1].kind != "nz":
            return None
        lv = a[1].lv
        j = lv_single_lane(lv)
        if j is None:
            return None
        return LF(j, [int((lv.tab[j][x * 2] != 0) != neg) for x in range(8)], 1)

    def _merge(self, f, j, A, st, B, sf, c, al, litA, litB):
        envA, condA, memA, alA = A
        envB, condB, memB, alB = B
        if condA != F_and(c, litA) or condB != F_and(c, litB):
            return None         # further conditions were added inside a side
        for l in range(NL):
            if l != j and alA[l] != alB[l]:
                return None
        env = {}
        for k in envA.keys() & envB.keys():
            ty = f.insts[k].type if k in f.insts else ""
            w = int(ty[1:]) if ty.startswith("i") and ty[1:].isdigit() else None
            v = combine_lane(j, st, envA[k], sf, envB[k], w)
            if v is None:
                return None
            env[k] = v
        if memA.keys() != memB.keys():
            return None
        mem = {}
        for k in memA:
            (va, sa), (vb, sb) = memA[k], memB[k]
            if sa != sb:
                return None
            v = combine_lane(j, st, va, sf, vb, sa * 8)
            if v is None:
                return None
            mem[k] = (v, sa)
        nal = list(alA)
        nal[j] = sorted(set(st) | set(sf))
        return (env, c, mem, nal)

    def _explore(self, f, args, depth, work, stop):
        """explores from the work items until the block `stop` (exclusive; None = to the returns).
        -> (finished Paths, arrivals at stop as (env with stop's phis applied, cond, mem, allowed))"""
        fname = f.name
        out, arrivals = [], []

        def go(dest, pred, e, c, s, al):
            if dest == stop:
                arrivals.append((self._phis(f, dest, pred, e, args), c, s, al))
            else:
                work.append((dest, pred, e, c, s, al))
        while work:
            bidx, pred, env, cond, mem, alw = work.pop()
            b = f.blocks[bidx]
            if pred != self.PHIS_DONE and pred is not None:
                env = self._phis(f, bidx, pred, env, args)
            pend = [(env, cond, mem, alw)]
            for inst in b.insts:
                if inst.op == "phi":
                    continue
                self.steps += 1
                if self.steps > self.max_steps:
                    raise Shape("%s: more than %d abstract steps (unbounded loop under the case split?)" % (fname, self.max_steps))
                if inst is b.term:
                    break
                nxt = []
                for st_ in pend:
                    nxt += self.step(f, inst, st_, args, depth)
                pend = nxt
                if len(pend) + len(work) + len(out) > self.max_paths:
                    raise Shape("%s: more than %d paths" % (fname, self.max_paths))
            t = b.term
            for (e, c, s, al) in pend:
                if t.op == "ret":
                    rv = self.norm(self.val(f, t.ops[0], e, args), al) if t.ops else None
                    out.append(Path(c, rv, s, al))
                elif t.op == "br":
                    if len(t.ops) == 1:
                        go(t.ops[0][1], bidx, e, c, s, al)
                        continue
                    cv = self.norm(self.val(f, t.ops[0], e, args), al)
                    tb, fb = t.succs()
                    if isinstance(cv, int):
                        go(tb if cv & 1 else fb, bidx, e, c, s, al)
                        continue
                    part = self._lane_partition(cv, al) if isinstance(cv, LF) or (self.merge and isinstance(cv, BI)) else None
                    if part is not None:
                        j, lit, st_, sf_ = part
                        J = self._ipdom(f).get(bidx) if self.merge else None
                        sides = []
                        for dest, l_, S in ((tb, lit, st_), (fb, F_not(lit), sf_)):
                            if not S:
                                continue
                            cc = F_and(c, l_)
                            if f_contradictory(cc):
                                continue
                            al2 = list(al)
                            al2[j] = S
                            if J is None:
                                go(dest, bidx, e, cc, s, al2)
                            elif dest == J:
                                sides.append(([], [(self._phis(f, J, bidx, e, args), cc, s, al2)], l_, S))
                            else:
                                o2, a2 = self._explore(f, args, depth, [(dest, bidx, e, cc, s, al2)], J)
                                sides.append((o2, a2, l_, S))
                        if J is None:
                            continue
                        arr = []
                        for o2, a2, _l, _S in sides:
                            out.extend(o2)
                            arr.extend(a2)
                        if len(sides) == 2 and not sides[0][0] and not sides[1][0] and len(sides[0][1]) == 1 and len(sides[1][1]) == 1:
                            mg = self._merge(f, j, sides[0][1][0], sides[0][3], sides[1][1][0], sides[1][3], c, al, sides[0][2], sides[1][2])
                            if mg is not None:
                                arr = [mg]
                        for (e2, c2, s2, al2) in arr:
                            if J == stop:
                                arrivals.append((e2, c2, s2, al2))
                            else:
                                work.append((J, self.PHIS_DONE, e2, c2, s2, al2))
                    elif isinstance(cv, BI):
                        for dest, lit in ((tb, cv.f), (fb, F_not(cv.f))):
                            cc = F_and(c, lit)
                            if f_contradictory(cc):
                                continue
                            al2 = self.refine(al, lit)
                            if al2 is None:
                                continue
                            go(dest, bidx, e, cc, s, al2)
                    else:
                        raise Shape("%s: branch on an uninterpreted value at %s" % (fname, t.where()))
                elif t.op == "switch":
                    cv = self.norm(self.val(f, t.ops[0], e, args), al)
                    w = _width(self._type_of(f, t.ops[0]))
                    if isinstance(cv, LF):
                        raise Shape("%s: switch on a lane function at %s" % (fname, t.where()))
                    if isinstance(cv, LV):
                        # fork: one path per case value, and the default with every case excluded
                        rest_c, rest_al = c, al
                        for cvv, d in t.d["cases"]:
                            eq = self.norm(self.icmp("eq", cv, cvv & ((1 << w) - 1), w, t), rest_al)
                            if isinstance(eq, int):
                                if eq:
                                    go(d, bidx, e, rest_c, s, rest_al)
                                    rest_al = None
                                    break
                                continue
                            cc = F_and(rest_c, eq.f)
                            al2 = self.refine(rest_al, eq.f)
                            if al2 is not None and not f_contradictory(cc):
                                go(d, bidx, e, cc, s, al2)
                            rest_c = F_and(rest_c, F_not(eq.f))
                            rest_al = self.refine(rest_al, F_not(eq.f))
                            if rest_al is None or f_contradictory(rest_c):
                                rest_al = None
                                break
                        if rest_al is not None:
                            go(t.d["default"], bidx, e, rest_c, s, rest_al)
                        continue
                    if not isinstance(cv, int):
                        raise Shape("%s: switch on a value that depends on the index at %s" % (fname, t.where()))
                    dest = t.d["default"]
                    for cvv, d in t.d["cases"]:
                        if (cvv & ((1 << w) - 1)) == cv:
                            dest = d
                    go(dest, bidx, e, c, s, al)
                elif t.op == "unreachable":
                    pass
                else:
                    raise Shape("%s: terminator %s" % (fname, t.op))
                if len(work) + len(out) > self.max_paths:
                    raise Shape("%s: more than %d paths" % (fname, self.max_paths))
        return out, arrivals

    def refine(self, allowed, lit):
        """a branch literal over ONE input lane (no carry) restricts the allowed values of that lane; None = infeasible"""
        neg = lit[0] == "n"
        a = lit[1] if neg else lit
        if a[0] != "a" or a[1].kind != "nz":
            return allowed
        lv = a[1].lv
        if lv.chain is not None and lv.depends_on_carry():
            return allowed
        nzl = [j for j in range(NL) if any(lv.tab[j][x * 2] for x in allowed[j])]
        if len(nzl) > 1:
            return allowed
        if not nzl:
            return None if not neg else allowed
        j = nzl[0]
        keep = [x for x in allowed[j] if (lv.tab[j][x * 2] != 0) != neg]
        if not keep:
            return None
        if len(keep) == len(allowed[j]):
            return allowed
        al = list(allowed)
        al[j] = keep
        return al

    def _type_of(self, f, o):
        if o[0] == "i":
            return f.insts[o[1]].type
        if o[0] == "a":
            return f.args[o[1]]["type"]
        if o[0] == "c":
            return "i%d" % o[2]
        raise Shape("type of %r" % (o,))

    def val(self, f, o, env, args):
        k = o[0]
        if k == "c":
            return o[1] & ((1 << o[2]) - 1)
        if k == "a":
            return args[o[1]]
        if k == "i":
            if o[1] not in env:
                raise Shape("%s: use of a value the lane evaluator did not compute (%s)" % (f.name, f.insts[o[1]].op))
            return env[o[1]]
        if k in ("g", "ce"):
            return ("gptr", o)
        if k in ("undef", "poison"):
            return 0
        if k == "agg":
            return ("agg", [self.val(f, x, env, args) for x in o[1]])
        if k == "null":
            return 0
        raise Shape("operand kind %r" % (k,))

    # -- one instruction; returns list of (env, cond, mem, allowed) --
    def step(self, f, inst, st, args, depth):
        env, cond, mem, al = st
        op = inst.op
        if op == "call":
            cal = inst.callee or ""
            if cal.startswith("llvm.dbg") or cal.startswith("llvm.lifetime") or cal in ("llvm.assume", "llvm.experimental.noalias.scope.decl"):
                return [st]
            if cal.startswith("llvm.ctlz."):
                a = self.norm(self.val(f, inst.ops[0], env, args), al)
                w = _width(inst.type)
                if isinstance(a, int):
                    r = w - a.bit_length()
                elif isinstance(a, LV):
                    r = LI(a, (lambda p, w=w: w if p is None else w - 1 - p), w)
                else:
                    raise Shape("ctlz of an uninterpreted value")
                return [(self._set(env, inst, r, al), cond, mem, al)]
            fn = self.m.functions.get(cal)
            if fn is None or fn.decl or not fn.has_body:
                raise Shape("%s calls %s, which the lane evaluator cannot summarise" % (f.name, cal or "<indirect>"))
            cargs = [self.norm(self.val(f, o, env, args), al) for o in inst.ops[:len(fn.args)]]
            if cal in self.models:
                return [(self._set(env, inst, self.models[cal](self, cargs, al, inst), al), cond, mem, al)]
            r = self.lift_call(cal, fn, cargs, inst, depth, al)
            if r is not None:
                return [(self._set(env, inst, r, al), cond, mem, al)]
            res = []
            for p in self.run(cal, cargs, depth + 1, mem, al, cond):
                res.append((self._set(env, inst, p.ret, p.allowed) if not inst.type == "void" else env, p.cond, p.mem, p.allowed))
            return res
        if op == "store":
            v = self.norm(self.val(f, inst.ops[0], env, args), al)
            ptr = self.val(f, inst.ops[1], env, args)
            if isinstance(ptr, tuple) and ptr[0] == "ptr":
                ty = self._type_of(f, inst.ops[0])
                return [(env, cond, self.mem_store(mem, ptr[1], ptr[2], v, self.tsize(ty), inst), al)]
            raise Shape("%s: store to memory the lane evaluator does not model at %s" % (f.name, inst.where()))
        if op == "alloca":
            self._loc += 1
            return [(self._set(env, inst, ("ptr", ("loc", f.name, inst.id, self._loc), 0), al), cond, mem, al)]
        r = self.compute(f, inst, env, args, mem, al)
        return [(self._set(env, inst, r, al), cond, mem, al)]

    def _set(self, env, inst, v, al):
        e = dict(env)
        e[inst.id] = self.norm(v, al)
        return e

    def lift_call(self, cal, fn, cargs, inst, depth, al):
        """lane-local lifting: a callee applied to a value confined to ONE lane (a digit, at bits 0..2 of the value) and otherwise
        constant arguments is evaluated once per possible digit value; if every result is again a digit, the call is a lane table."""
        lvs = [k for k, a in enumerate(cargs) if isinstance(a, LV)]
        if len(lvs) != 1 or not all(isinstance(a, (int, LV)) for a in cargs):
            return None
        a = cargs[lvs[0]]
        nzl = [j for j in range(NL) if any(a.tab[j])]
        if len(nzl) != 1 or a.off != 3 * nzl[0] or not inst.type.startswith("i"):
            return None
        j0 = nzl[0]
        key = (cal, lvs[0], tuple(x if isinstance(x, int) else None for x in cargs))
        memo = self.lift.get(key)
        if memo is None:
            memo = {}
            for v in range(8):
                cc = list(cargs)
                cc[lvs[0]] = v
                try:
                    ps = self.run(cal, cc, depth + 1, {}, al)
                except Shape:
                    return None
                if len(ps) != 1 or not isinstance(ps[0].ret, int) or ps[0].mem or not (0 <= ps[0].ret <= 7):
                    return None
                memo[v] = ps[0].ret
            self.lift[key] = memo
        w = _width(inst.type)
        tab = [tuple(0 for _ in range(16)) for _ in range(NL)]
        tab[j0] = tuple(memo[v] for v in a.tab[j0])
        r = LV(w, a.off, tab, a.chain)
        return r.masked(r.window())

    def compute(self, f, inst, env, args, mem, al):
        op = inst.op
        g = lambda k: self.norm(self.val(f, inst.ops[k], env, args), al)
        if op in ("and", "or", "xor", "add", "sub", "mul", "shl", "lshr", "ashr", "udiv", "sdiv", "urem", "srem"):
            w = _width(inst.type)
            a, b = g(0), g(1)
            return self.binop(op, a, b, w, inst, al)
        if op == "icmp":
            a, b = g(0), g(1)
            w = _width(self._type_of(f, inst.ops[0])) if not self._type_of(f, inst.ops[0]).endswith("*") else 64
            return self.icmp(inst.pred, a, b, w, inst, al)
        if op in ("zext", "trunc", "sext"):
            a = g(0)
            w = _width(inst.type)
            sw = _width(self._type_of(f, inst.ops[0]))
            if isinstance(a, int):
                if op == "sext":
                    return _s(a, sw) & ((1 << w) - 1)
                return a & ((1 << w) - 1)
            if isinstance(a, BI):
                if op == "sext":
                    raise Shape("sext of a condition")
                return BI(a.f, w)
            if isinstance(a, LV):
                if op == "trunc":
                    r = LV(w, a.off, a.tab, a.chain)
                    return r.masked(r.window())
                if op == "sext":
                    top = a.off + a.width - 1
                    if 0 <= top <= 63 and any((t >> (top % 3)) & 1 for t in a.tab[top // 3]):
                        raise Shape("sext of a lane value whose sign bit may be set at %s" % inst.where())
                return LV(w, a.off, a.tab, a.chain)
            if isinstance(a, LI):
                if op == "sext":
                    return LI(a.lv, (lambda p, fn=a.fn, sw=sw, w=w: _s(fn(p), sw) & ((1 << w) - 1)), w)
                return LI(a.lv, (lambda p, fn=a.fn, w=w: fn(p) & ((1 << w) - 1)), w)
            if isinstance(a, LF):
                if op == "sext":
                    return LF(a.lane, [_s(t & ((1 << sw) - 1), sw) & ((1 << w) - 1) for t in a.tab], w)
                return LF(a.lane, [t & ((1 << min(w, sw)) - 1) for t in a.tab], w)
            if isinstance(a, LS):
                lo, hi = a.rng(al)
                if op in ("sext", "zext") and (op == "sext" or lo >= 0):
                    return LS(a.const, a.lanes, w)
                if op == "trunc" and -(1 << (w - 1)) <= lo and hi < (1 << (w - 1)):
                    return LS(a.const, a.lanes, w)
                raise Shape("cast of a sum of digit contributions outside its range at %s" % inst.where())
            raise Shape("cast of uninterpreted value")
        if op == "select":
            c, a, b = g(0), g(1), g(2)
            if isinstance(c, int):
                return a if c & 1 else b
            cl = c if isinstance(c, LF) else self.bi_to_lf(c)
            if cl is not None and not (isinstance(a, BI) or isinstance(b, BI)):
                la = lv_to_lf(a) if isinstance(a, LV) else a
                lb = lv_to_lf(b) if isinstance(b, LV) else b
                if all(isinstance(v, int) or (isinstance(v, LF) and v.lane == cl.lane) for v in (la, lb)):
                    w = _width(inst.type)
                    at = lambda v, x: v if isinstance(v, int) else v.tab[x]
                    return LF(cl.lane, [(at(la, x) if cl.tab[x] & 1 else at(lb, x)) & ((1 << w) - 1) for x in range(8)], w)
            if isinstance(c, LF):
                c = BI(F_atom(lf_atom(c)), 1)
            if isinstance(c, BI):
                fa = self.as_formula(a)
                fb = self.as_formula(b)
                if fa is not None and fb is not None:
                    w = _width(inst.type)
                    return BI(F_or(F_and(c.f, fa), F_and(F_not(c.f), fb)), w)
            raise Shape("select between index-dependent values on an index-dependent condition at %s" % inst.where())
        if op == "getelementptr":
            base = self.val(f, inst.ops[0], env, args)
            idx = [g(k) for k in range(1, len(inst.ops))]
            if not all(isinstance(x, int) for x in idx):
                raise Shape("subscript depends on the index (no case split fixes it) at %s" % inst.where())
            ws = [_width(self._type_of(f, o)) for o in inst.ops[1:]]
            idx = [_s(x, w) for x, w in zip(idx, ws)]
            if isinstance(base, tuple) and base[0] == "gptr":
                return ("gep", base[1], idx, inst.d.get("srcty", ""))
            if isinstance(base, tuple) and base[0] == "ptr":
                return ("ptr", base[1], base[2] + self.gep_offset(inst.d.get("srcty", ""), idx, inst))
            raise Shape("getelementptr on unmodelled base at %s" % inst.where())
        if op == "bitcast":
            return self.val(f, inst.ops[0], env, args)
        if op == "load":
            p = self.val(f, inst.ops[0], env, args)
            if isinstance(p, tuple) and p[0] == "gep":
                return self.load_const(p, inst)
            if isinstance(p, tuple) and p[0] == "ptr":
                return self.mem_load(mem, p[1], p[2], self.tsize(inst.type), inst)
            raise Shape("load from memory the lane evaluator does not model at %s" % inst.where())
        if op == "extractvalue":
            a = self.val(f, inst.ops[0], env, args)
            for k in inst.d.get("idx", []):
                if not (isinstance(a, tuple) and a[0] == "agg"):
                    raise Shape("extractvalue of a non-aggregate at %s" % inst.where())
                a = a[1][k]
            return a
        if op == "insertvalue":
            a = self.val(f, inst.ops[0], env, args)
            v = g(1)
            idx = inst.d.get("idx", [])
            if len(idx) != 1:
                raise Shape("nested insertvalue at %s" % inst.where())
            n_ = len(ir._split_types(inst.type.strip().strip("{}")))
            items = list(a[1]) if isinstance(a, tuple) and a[0] == "agg" else [0] * n_
            items[idx[0]] = v
            return ("agg", items)
        if op == "freeze":
            return g(0)
        raise Shape("instruction %s at %s" % (op, inst.where()))

    def load_const(self, p, inst):
        _, base, idx, srcty = p
        name = None
        for leaf in ir.ce_leaves(base):
            if leaf[0] == "g":
                name = leaf[1]
        if name is None:
            raise Shape("load from a non-table")
        gl = self.m.globals.get(name)
        if gl is None or "init" not in gl or not gl.get("const", True):
            raise Shape("load from %s which is not a constant table" % name)
        v = self.tabs.get(name)
        if idx and idx[0] != 0:
            raise Shape("table %s addressed with a non-zero leading index" % name)
        for k in idx[1:]:
            if not isinstance(v, list) or k < 0 or k >= len(v):
                raise Shape("subscript %d outside %s under the case split at %s" % (k, name, inst.where()))
            v = v[k]
        if isinstance(v, list) or v is None or isinstance(v, float):
            raise Shape("load of a non-integer from %s" % name)
        w = _width(inst.type)
        return v & ((1 << w) - 1)

    def as_formula(self, v):
        if isinstance(v, int):
            if v in (0, 1):
                return F_const(v)
            return None
        if isinstance(v, BI):
            return v.f
        if isinstance(v, LF):
            return F_atom(lf_atom(v))
        return None

    ARITH_ONLY = ("mul", "sdiv", "udiv", "srem", "urem", "ashr")

    def _lfable(self, v, op):
        """single-lane chain-free LV that the lane-table path cannot treat (shifted, or an operator it lacks)"""
        return isinstance(v, LV) and lv_single_lane(v) is not None and (op in self.ARITH_ONLY or (op in ("add", "sub") and v.off != 0))

    def lf_binop(self, op, a, b, w, inst, al=None):
        def cv(v):
            if isinstance(v, LV):
                r = lv_to_lf(v)
                if r is None:
                    raise Shape("arithmetic mixes a digit function with a multi-lane value at %s" % inst.where())
                return r
            if isinstance(v, BI):
                r = self.bi_to_lf(v)
                if r is None:
                    raise Shape("arithmetic on a multi-lane condition at %s" % inst.where())
                return r
            return v
        a, b = cv(a), cv(b)
        alw = al if al is not None else self.allowed
        if op == "shl" and isinstance(a, (LF, LS)) and isinstance(b, int):
            # a digit moved to its place in an index: back to a lane table when it lands on the lane it depends on
            if isinstance(a, LS):
                var = [l for l, t in a.lanes.items() if len({t[x] for x in alw[l]}) > 1]
                if len(var) <= 1:
                    base = a.const + sum(t[alw[l][0]] for l, t in a.lanes.items() if l not in var)
                    l = var[0] if var else (next(iter(a.lanes)) if a.lanes else None)
                    if l is not None:
                        a = LF(l, [(base + a.lanes[l][x]) & ((1 << w) - 1) if x in alw[l] else 0 for x in range(8)], w)
                    else:
                        return self.cbin("shl", base & ((1 << w) - 1), b, w)
            if isinstance(a, LF) and b == 3 * a.lane and all(a.tab[x] < 8 for x in alw[a.lane]):
                tab = [tuple(0 for _ in range(16)) for _ in range(NL)]
                tab[a.lane] = tuple((a.tab[x] if x in alw[a.lane] else 0) for x in range(8) for _c in (0, 1))
                return LV(w, 0, tab)
        if op in ("sdiv", "srem") and isinstance(a, LS) and isinstance(b, int) and 0 < _s(b, w):
            k = _s(b, w)
            hi_l = {l: t for l, t in a.lanes.items() if all(t[x] % k == 0 for x in alw[l])}
            lo_l = {l: t for l, t in a.lanes.items() if l not in hi_l}
            hc, lc = (a.const, 0) if a.const % k == 0 else (0, a.const)
            low = LS(lc, lo_l, w)
            lo, hi = low.rng(alw)
            if not (0 <= lo and hi < k):
                raise Shape("division of a sum of digit contributions by %d: the remainder part ranges over %d..%d at %s" % (k, lo, hi, inst.where()))
            if op == "srem":
                return low
            return LS(hc // k, {l: tuple((t[x] // k if x in alw[l] else 0) for x in range(8)) for l, t in hi_l.items()}, w)
        if isinstance(a, (int, LF)) and isinstance(b, (int, LF)) and not (isinstance(a, LF) and isinstance(b, LF) and a.lane != b.lane):
            j = a.lane if isinstance(a, LF) else b.lane
            at = lambda v, x: v if isinstance(v, int) else v.tab[x]
            return LF(j, [self.cbin(op, at(a, x) & ((1 << w) - 1), at(b, x) & ((1 << w) - 1), w) for x in range(8)], w)
        # sums of contributions of different lanes: mathematical integers (signed interpretation of the operands)
        def sg(v):
            if isinstance(v, int):
                return LS(_s(v & ((1 << w) - 1), w), {}, w)
            if isinstance(v, LF):
                return LS(0, {v.lane: tuple(_s(t & ((1 << v.width) - 1), v.width) for t in v.tab)}, w)
            if isinstance(v, LS):
                return v
            raise Shape("unsupported operand in a digit sum at %s" % inst.where())
        if op in ("add", "sub"):
            x, y = sg(a), sg(b)
            sgn = 1 if op == "add" else -1
            lanes_ = dict(x.lanes)
            for l, t in y.lanes.items():
                o = lanes_.get(l, (0,) * 8)
                lanes_[l] = tuple(p_ + sgn * q_ for p_, q_ in zip(o, t))
            return LS(x.const + sgn * y.const, lanes_, w)
        if op == "mul" and (isinstance(a, int) or isinstance(b, int)):
            k, v = (a, b) if isinstance(a, int) else (b, a)
            k = _s(k & ((1 << w) - 1), w)
            v = sg(v)
            return LS(v.const * k, {l: tuple(t_ * k for t_ in t) for l, t in v.lanes.items()}, w)
        raise Shape("%s on a sum of digit contributions at %s" % (op, inst.where()))

    def binop(self, op, a, b, w, inst, al=None):
        mask = (1 << w) - 1
        if isinstance(a, int) and isinstance(b, int):
            return self.cbin(op, a, b, w)
        if isinstance(a, (LF, LS)) or isinstance(b, (LF, LS)) or \
                (self._lfable(a, op) and (isinstance(b, int) or self._lfable(b, op))) or (self._lfable(b, op) and isinstance(a, int)):
            return self.lf_binop(op, a, b, w, inst, al)
        # formulas (i1 logic, or 0/1 integers)
        if (isinstance(a, BI) or isinstance(b, BI)) and not (isinstance(a, (LF, LS)) or isinstance(b, (LF, LS))):
            fa, fb = self.as_formula(a), self.as_formula(b)
            if fa is not None and fb is not None and op in ("and", "or", "xor"):
                return BI({"and": F_and, "or": F_or, "xor": F_xor}[op](fa, fb), w)
            raise Shape("arithmetic on a condition at %s" % inst.where())
        if isinstance(a, LI) or isinstance(b, LI):
            if isinstance(a, LI) and isinstance(b, int):
                return LI(a.lv, (lambda p, fn=a.fn, b=b: self.cbin(op, fn(p), b, w)), w)
            if isinstance(b, LI) and isinstance(a, int):
                return LI(b.lv, (lambda p, fn=b.fn, a=a: self.cbin(op, a, fn(p), w)), w)
            raise Shape("arithmetic between two bit-position values at %s" % inst.where())
        if isinstance(a, LV) and isinstance(b, LV):
            if op not in ("and", "or", "xor"):
                raise Shape("%s of two index-derived values at %s" % (op, inst.where()))
            if a.off != b.off or a.width != b.width:
                raise Shape("bitwise %s of differently shifted index-derived values at %s" % (op, inst.where()))
            if a.chain is not None and b.chain is not None and a.chain is not b.chain:
                raise Shape("two carry chains meet at %s" % inst.where())
            fn = {"and": lambda x, y: x & y, "or": lambda x, y: x | y, "xor": lambda x, y: x ^ y}[op]
            return LV(w, a.off, [tuple(fn(x, y) for x, y in zip(a.tab[j], b.tab[j])) for j in range(NL)], a.chain or b.chain)
        # one LV, one constant
        if op in ("shl", "lshr"):
            if not (isinstance(a, LV) and isinstance(b, int)):
                raise Shape("shift amount depends on the index (no case split fixes it) at %s" % inst.where())
            if b >= w:
                return 0
            if op == "shl":
                r = LV(w, a.off - b, a.tab, a.chain)
            else:
                r = LV(w, a.off + b, a.tab, a.chain)
                # bits p' >= w - b came from nowhere: window() handles the top by the width; low side: p' >= 0 means q >= off'
            return r.masked(r.window() & a.window())
        if op in ("and", "or", "xor"):
            lv, k = (a, b) if isinstance(a, LV) else (b, a)
            kh, kout = const_to_h(k, w, lv.off)
            if op != "and" and (kout or (kh & ~lv.window())):
                raise Shape("%s with a constant that reaches outside the tracked window at %s" % (op, inst.where()))
            kl = lanes_of(kh)
            fn = {"and": lambda x, y: x & y, "or": lambda x, y: x | y, "xor": lambda x, y: x ^ y}[op]
            return LV(w, lv.off, [tuple(fn(x, kl[j]) for x in lv.tab[j]) for j in range(NL)], lv.chain)
        if op in ("add", "sub"):
            lv, k, lv_first = (a, b, True) if isinstance(a, LV) else (b, a, False)
            if lv.off != 0 or lv.chain is not None:
                raise Shape("arithmetic on a shifted or already carry-dependent index-derived value at %s" % inst.where())
            if lv.width != w:
                raise Shape("width mismatch in arithmetic at %s" % inst.where())
            kl = lanes_of(k & mask)
            tab, cout = [], []
            for j in range(NL):
                t, co = [], []
                for x in range(8):
                    av = lv.tab[j][x * 2]
                    for c in (0, 1):
                        if op == "add":
                            s = av + kl[j] + c
                            t.append(s & 7); co.append(s >> 3)
                        else:
                            s = (av - kl[j] - c) if lv_first else (kl[j] - av - c)
                            t.append(s & 7); co.append(1 if s < 0 else 0)
                tab.append(tuple(t)); cout.append(tuple(co))
            # carries that are determined under the allowed input lanes leave no chain behind
            if al is not None:
                cin, known = 0, True
                spec = []
                for j in range(NL):
                    spec.append(tuple(tab[j][x * 2 + cin] for x in range(8) for _c in (0, 1)))
                    outs = {cout[j][x * 2 + cin] for x in al[j]}
                    if len(outs) != 1:
                        known = False
                        break
                    cin = outs.pop()
                if known:
                    r = LV(w, 0, spec)
                    return r.masked(r.window())
            r = LV(w, 0, tab, Chain(0, cout))
            return r.masked(r.window())
        raise Shape("%s on an index-derived value at %s" % (op, inst.where()))

    def cbin(self, op, a, b, w):
        mask = (1 << w) - 1
        if op == "and": return a & b
        if op == "or": return a | b
        if op == "xor": return a ^ b
        if op == "add": return (a + b) & mask
        if op == "sub": return (a - b) & mask
        if op == "mul": return (a * b) & mask
        if op == "shl": return (a << b) & mask if b < w else 0
        if op == "lshr": return a >> b if b < w else 0
        if op == "ashr": return (_s(a, w) >> min(b, w - 1)) & mask
        if op == "udiv":
            if b == 0: raise Shape("division by zero under the case split")
            return a // b
        if op == "urem":
            if b == 0: raise Shape("division by zero under the case split")
            return a % b
        if op in ("sdiv", "srem"):
            sa, sb = _s(a, w), _s(b, w)
            if sb == 0: raise Shape("division by zero under the case split")
            q = abs(sa) // abs(sb)
            if (sa < 0) != (sb < 0): q = -q
            return (q if op == "sdiv" else sa - q * sb) & mask
        raise Shape("integer op " + op)

    def icmp(self, pred, a, b, w, inst, al=None):
        if isinstance(a, int) and isinstance(b, int):
            return 1 if _icmp(pred, a, b, w) else 0
        if isinstance(a, (LF, LS)) or isinstance(b, (LF, LS)):
            if isinstance(a, LS) or isinstance(b, LS):
                d = self.lf_binop("sub", a, b, w, inst)
                lo, hi = d.rng(al if al is not None else self.allowed)
                # the operands are mathematical integers here: decide by the range of the difference
                if not (-(1 << (w - 1)) <= lo and hi < (1 << (w - 1))):
                    raise Shape("a sum of digit contributions may leave the %d-bit range at %s" % (w, inst.where()))
                if pred.startswith("u") and pred not in ("eq", "ne"):
                    raise Shape("unsigned order on a sum of digit contributions at %s" % inst.where())
                res = {"eq": (lo == hi == 0, lo > 0 or hi < 0), "ne": (lo > 0 or hi < 0, lo == hi == 0), "slt": (hi < 0, lo >= 0), "sle": (hi <= 0, lo > 0),
                       "sgt": (lo > 0, hi <= 0), "sge": (lo >= 0, hi < 0)}[pred]
                if res[0]:
                    return 1
                if res[1]:
                    return 0
                alw = al if al is not None else self.allowed
                var = [l for l, t in d.lanes.items() if len({t[x] for x in alw[l]}) > 1]
                if len(var) == 1:
                    # only one digit still varies: the comparison is a function of that digit
                    l = var[0]
                    base = d.const + sum(t[alw[k][0]] for k, t in d.lanes.items() if k != l)
                    cmpf = {"eq": lambda v: v == 0, "ne": lambda v: v != 0, "slt": lambda v: v < 0, "sle": lambda v: v <= 0, "sgt": lambda v: v > 0, "sge": lambda v: v >= 0}[pred]
                    return LF(l, [1 if (x in alw[l] and cmpf(base + d.lanes[l][x])) else 0 for x in range(8)], 1)
                raise Shape("comparison of a sum of digit contributions is not decided by its range at %s" % inst.where())
            def cv(v):
                if isinstance(v, LV):
                    r = lv_to_lf(v)
                    if r is None:
                        raise Shape("comparison mixes a digit function with a multi-lane value at %s" % inst.where())
                    return r
                return v
            a, b = cv(a), cv(b)
            if isinstance(a, LF) and isinstance(b, LF) and a.lane != b.lane:
                raise Shape("comparison of two different digits at %s" % inst.where())
            j = a.lane if isinstance(a, LF) else b.lane
            at = lambda v, x: (v if isinstance(v, int) else v.tab[x]) & ((1 << w) - 1)
            return LF(j, [1 if _icmp(pred, at(a, x), at(b, x), w) else 0 for x in range(8)], 1)
        if isinstance(b, (LV, LI, BI)) and isinstance(a, int):
            a, b = b, a
            pred = {"ult": "ugt", "ugt": "ult", "ule": "uge", "uge": "ule", "slt": "sgt", "sgt": "slt", "sle": "sge", "sge": "sle"}.get(pred, pred)
        if isinstance(a, BI) and isinstance(b, int):
            # a is 0 or 1
            t1 = _icmp(pred, 1, b, w)
            t0 = _icmp(pred, 0, b, w)
            if t1 == t0:
                return 1 if t1 else 0
            return BI(a.f if t1 else F_not(a.f), 1)
        if isinstance(a, LI) and isinstance(b, int):
            return BI(F_atom(Atom("top", a.lv, (lambda p, fn=a.fn, b=b, pred=pred, w=w: _icmp(pred, fn(p), b, w)))), 1)
        if isinstance(a, LV) and isinstance(b, int):
            kh, kout = const_to_h(b, w, a.off)
            if pred in ("eq", "ne"):
                if kout or (kh & ~a.window()):
                    return 0 if pred == "eq" else 1
                kl = lanes_of(kh)
                x = LV(a.width, a.off, [tuple(v ^ kl[j] for v in a.tab[j]) for j in range(NL)], a.chain)
                f_ = F_atom(Atom("nz", x))
                return BI(F_not(f_) if pred == "eq" else f_, 1)
            if pred in ("ult", "ugt", "ule", "uge"):
                if a.off < 0:
                    raise Shape("unsigned order of a left-shifted index-derived value at %s" % inst.where())
                if kout:   # the constant has bits above everything the value can have
                    return 1 if pred in ("ult", "ule") else 0
                return BI(F_atom(Atom("cmp", a, lanes_of(kh), pred)), 1)
            # signed: only when the sign bit of the value is known 0 and the constant is non-negative
            top = a.off + a.width - 1
            signset = (0 <= top <= 63) and any((t >> (top % 3)) & 1 for t in a.tab[top // 3])
            if not signset and not (b >> (w - 1)):
                return self.icmp("u" + pred[1:], a, b, w, inst)
            raise Shape("signed order on an index-derived value whose sign may be set at %s" % inst.where())
        if isinstance(a, LV) and isinstance(b, LV) and pred in ("eq", "ne"):
            x = self.binop("xor", a, b, w, inst)
            if isinstance(x, int):
                return 1 if (x == 0) == (pred == "eq") else 0
            f_ = F_atom(Atom("nz", x))
            return BI(F_not(f_) if pred == "eq" else f_, 1)
        raise Shape("comparison the lane evaluator cannot interpret at %s" % inst.where())


# ------------------------------------------------------------------ deciding
def _msb(v):
    return v.bit_length() - 1


def f_subst(f, sub):
    """substitute decided atoms (dict atom -> bool) and simplify"""
    k = f[0]
    if k == "c":
        return f
    if k == "a":
        return F_const(sub[f[1]]) if f[1] in sub else f
    if k == "n":
        return F_not(f_subst(f[1], sub))
    return F_and(f_subst(f[1], sub), f_subst(f[2], sub))


def _last_lane(a, allowed):
    """last lane at which the atom's state can still change"""
    if a.kind == "ne2":
        return NL - 1
    if a.kind == "carryat":
        return a.arg2
    if a.kind == "cfinal":
        return NL - 1
    last = -1
    for j in range(NL):
        t = a.lv.tab[j]
        for x in allowed[j]:
            for c in (0, 1):
                v = t[x * 2 + c]
                if (a.kind == "cmp" and v != a.arg[j]) or (a.kind != "cmp" and v != 0):
                    last = j
    return last


def _atom_value(a, s):
    if a.kind in ("nz", "ne2", "carryat", "cfinal"):
        return bool(s)
    if a.kind == "top":
        return bool(a.arg(None if s is None else s - a.lv.off))
    return {"ult": s < 0, "ule": s <= 0, "ugt": s > 0, "uge": s >= 0}[a.arg2]


def decide(allowed, formulas, spec, max_states=200000):
    """formulas: dict name -> formula over atoms.  spec: object with init(), step(j, x, s), and final(s) -> dict name -> expected bool
    (or None = don't care).  Explores the product automaton over the lanes; an atom whose value can no longer change is substituted
    into the residual formulas and leaves the state.  Returns (n_states, mismatch|None), mismatch = (name, got, expected, witness h)."""
    names = list(formulas)
    atoms = []
    for n_ in names:
        f_atoms(formulas[n_], atoms)
    chains = []
    for a in atoms:
        for ch in ((a.lv.chain if a.lv is not None else None), (a.arg.chain if a.kind == "ne2" else None), (a.arg if a.kind in ("carryat", "cfinal") else None)):
            if ch is not None and ch not in chains:
                chains.append(ch)
    cidx = {id(c): k for k, c in enumerate(chains)}
    a_chain = [cidx.get(id(a.lv.chain), -1) if a.lv is not None else -1 for a in atoms]
    a_chain2 = [cidx.get(id(a.arg.chain), -1) if a.kind == "ne2" else (cidx[id(a.arg)] if a.kind in ("carryat", "cfinal") else -1) for a in atoms]
    last = [_last_lane(a, allowed) for a in atoms]
    RET = "retired"

    def a_init(a):
        if a.kind in ("nz", "ne2", "carryat", "cfinal"): return False
        if a.kind == "top": return None
        return 0    # cmp: 0 eq, -1 lt, 1 gt

    ast0 = [a_init(a) for a in atoms]
    fs0 = tuple(formulas[n_] for n_ in names)
    sub = {a: _atom_value(a, ast0[k]) for k, a in enumerate(atoms) if last[k] < 0}
    if sub:
        fs0 = tuple(f_subst(f, sub) for f in fs0)
        ast0 = [RET if last[k] < 0 else s for k, s in enumerate(ast0)]
    init = (tuple(c.cin0 for c in chains), tuple(ast0), fs0, spec.init())
    states = {init: 0}      # state -> witness h
    total = 1
    for j in range(NL):
        nxt = {}
        for (car, ast, fs, sst), wit in states.items():
            for x in allowed[j]:
                ncar = tuple(c.cout[j][x * 2 + car[k]] for k, c in enumerate(chains))
                nast = []
                sub = None
                for k, a in enumerate(atoms):
                    s = ast[k]
                    if s is RET:
                        nast.append(s)
                        continue
                    if a.kind == "carryat":
                        if j < a.arg2:
                            nast.append(s)
                        else:
                            if sub is None:
                                sub = {}
                            sub[a] = bool(car[a_chain2[k]])
                            nast.append(RET)
                        continue
                    if a.kind == "cfinal":
                        if j == NL - 1:
                            if sub is None:
                                sub = {}
                            sub[a] = bool(ncar[a_chain2[k]])
                            nast.append(RET)
                        else:
                            nast.append(s)
                        continue
                    c = car[a_chain[k]] if a_chain[k] >= 0 else 0
                    v = a.lv.tab[j][x * 2 + c]
                    if a.kind == "ne2":
                        c2 = car[a_chain2[k]] if a_chain2[k] >= 0 else 0
                        s = s or v != a.arg.tab[j][x * 2 + c2]
                        if s or j == NL - 1:
                            if sub is None:
                                sub = {}
                            sub[a] = bool(s)
                            s = RET
                        nast.append(s)
                        continue
                    if a.kind == "nz":
                        s = s or v != 0
                    elif a.kind == "top":
                        if v:
                            s = 3 * j + _msb(v)
                    else:
                        kv = a.arg[j]
                        if v != kv:
                            s = -1 if v < kv else 1
                    if last[k] <= j or (a.kind == "nz" and s):
                        if sub is None:
                            sub = {}
                        sub[a] = _atom_value(a, s)
                        s = RET
                    nast.append(s)
                nfs = fs
                if sub:
                    nfs = tuple(f_subst(f, sub) for f in fs)
                nsst = spec.step(j, x, sst)
                key = (ncar, tuple(nast), nfs, nsst)
                if key not in nxt:
                    nxt[key] = wit | (x << (3 * j))
        states = nxt
        total += len(states)
        if len(states) > max_states:
            raise Shape("more than %d product states" % max_states)
    for (car, ast, fs, sst), wit in states.items():
        exp = spec.final(sst)
        for name, f in zip(names, fs):
            e = exp.get(name)
            if e is None:
                continue
            if f[0] != "c":
                raise Shape("residual formula not decided after the last lane")
            if bool(f[1]) != bool(e):
                return total, (name, bool(f[1]), bool(e), wit & M64)
    return total, None


def lv_equal_spec(lv, allowed, spec_lane):
    """lv (no carry chain, offset 0) equals lane-wise spec_lane(j, x) for every allowed x: -> None or (lane, x, got, expected)"""
    if lv.chain is not None and lv.depends_on_carry():
        raise Shape("value depends on a carry chain")
    if lv.off != 0:
        raise Shape("value is shifted")
    for j in range(NL):
        for x in allowed[j]:
            e = spec_lane(j, x)
            if e is None:
                continue
            if lv.tab[j][x * 2] != e:
                return (j, x, lv.tab[j][x * 2], e)
    return None


def const_lv(k, width=64):
    kl = lanes_of(k & ((1 << width) - 1))
    return LV(width, 0, [tuple(kl[j] for _ in range(16)) for j in range(NL)])


def diff_lv(out, lane_fn, width=64):
    """LV that is non-zero exactly where `out` (LV at offset 0, or an int) differs from the documented lane map
    lane_fn(j, x) -> expected lane value | None (don't care)"""
    if isinstance(out, int):
        out = const_lv(out, width)
    if not isinstance(out, LV) or out.off != 0:
        raise Shape("an index-valued result is not an unshifted index-derived value")
    tab = []
    for j in range(NL):
        t = []
        for x in range(8):
            e = lane_fn(j, x)
            for c in (0, 1):
                t.append(0 if e is None else (out.tab[j][x * 2 + c] ^ e))
        tab.append(tuple(t))
    return LV(out.width, 0, tab, out.chain)


def mismatch_formula(paths, getter, lane_fn):
    """'some path is taken and the value it yields differs from the documented lane map'"""
    f = F_const(False)
    for p in paths:
        v = getter(p)
        if v is None:
            continue
        d = diff_lv(v, lane_fn)
        f = F_or(f, F_and(p.cond, F_atom(Atom("nz", d))))
    return f
