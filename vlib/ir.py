"""In-memory model of the JSON that tools/irdump exports (LLVM IR of /repo's current sources)."""
import json, os, re, subprocess
from . import build
from .build import AnalysisBroken

IRDUMP = os.path.join(build.VERIF, "tools", "irdump")


class V:
    """Operand kinds"""
    __slots__ = ()


def is_inst(o): return o[0] == "i"
def is_arg(o): return o[0] == "a"
def is_cint(o): return o[0] == "c"
def is_global(o): return o[0] == "g"


def cint_signed(o):
    v, bits = o[1], o[2]
    return v - (1 << bits) if v >> (bits - 1) else v


class Inst:
    __slots__ = ("id", "op", "type", "name", "ops", "d", "block", "fn")

    def __init__(self, d, block, fn):
        self.d = d
        self.id = d["i"]
        self.op = d["op"]
        self.type = d["t"]
        self.name = d.get("n", "")
        self.ops = d["o"]
        self.block = block
        self.fn = fn

    @property
    def line(self): return self.d.get("l", 0)

    @property
    def file(self):
        f = self.d.get("f", -1)
        return self.fn.module.files[f] if f is not None and f >= 0 else ""

    @property
    def callee(self): return self.d.get("callee")

    @property
    def pred(self): return self.d.get("pred")

    @property
    def src_fn(self):
        """function whose source text this instruction comes from (differs from fn after inlining)"""
        return self.d.get("sf", self.fn.name)

    def inlined_at(self):
        return [(a[0], self.fn.module.files[a[1]] if a[1] >= 0 else "", a[2]) for a in self.d.get("ia", [])]

    def where(self):
        """file:line (+ inlined-at chain) relative to the repo"""
        s = "%s:%d" % (relpath(self.file), self.line) if self.line else "<no-loc>"
        ia = self.inlined_at()
        if ia:
            s += " [in %s" % self.src_fn + "".join(" <- %s:%d" % (relpath(f), l) for (_, f, l) in ia) + "]"
        return s

    def succs(self):
        """successor block indexes of a terminator"""
        if self.op == "br":
            if len(self.ops) == 1:
                return [self.ops[0][1]]
            # LLVM operand order: cond, false, true
            return [self.ops[2][1], self.ops[1][1]]  # [true, false]
        if self.op == "switch":
            return [c[1] for c in self.d["cases"]] + [self.d["default"]]
        return []

    def __repr__(self):
        return "<%%%s = %s %s @%s>" % (self.name or self.id, self.op, self.ops, self.line)


def relpath(p):
    for root in (build.REPO + "/", os.environ.get("H3_REPO", "/repo") + "/"):
        if p.startswith(root):
            return p[len(root):]
    return p


class Block:
    __slots__ = ("idx", "name", "insts", "fn", "preds")

    def __init__(self, idx, d, fn):
        self.idx = idx
        self.name = d["name"]
        self.fn = fn
        self.insts = [Inst(i, self, fn) for i in d["insts"]]
        self.preds = []

    @property
    def term(self): return self.insts[-1]

    def succs(self): return self.term.succs()

    def phis(self):
        for i in self.insts:
            if i.op != "phi":
                break
            yield i


class Function:
    def __init__(self, d, module):
        self.d = d
        self.module = module
        self.name = d["name"]
        self.decl = d["decl"]
        self.args = d["args"]
        self.attrs = d["attrs"]
        self.blocks = []
        self.insts = {}
        self.dbgvars = d.get("dbgvars", [])
        self.has_body = "blocks" in d
        if self.has_body:
            self.blocks = [Block(i, b, self) for i, b in enumerate(d["blocks"])]
            for b in self.blocks:
                for i in b.insts:
                    self.insts[i.id] = i
            for b in self.blocks:
                for s in set(b.succs()):
                    self.blocks[s].preds.append(b.idx)
        self._users = None

    @property
    def file(self):
        f = self.d.get("f", -1)
        return self.module.files[f] if f >= 0 else ""

    @property
    def line(self): return self.d.get("l", 0)

    def all_insts(self):
        for b in self.blocks:
            for i in b.insts:
                yield i

    def users(self, key):
        """key: ("i", id) or ("a", idx) -> list of Inst using it"""
        if self._users is None:
            u = {}
            for i in self.all_insts():
                for o in i.ops:
                    if o[0] in ("i", "a"):
                        u.setdefault((o[0], o[1]), []).append(i)
                    elif o[0] == "ce":
                        for k in ce_leaves(o):
                            if k[0] == "g":
                                u.setdefault(("g", k[1]), []).append(i)
                    elif o[0] == "g":
                        u.setdefault(("g", o[1]), []).append(i)
            self._users = u
        return self._users.get(tuple(key[:2]), [])

    def arg_index(self, name):
        for k, a in enumerate(self.args):
            if a["name"] == name:
                return k
        # fall back to debug-info names (dbg.value with arg number)
        for dv in self.dbgvars:
            if dv["name"] == name and dv["arg"] > 0 and dv["fn"] == self.d.get("dname", self.name) and not dv["inl"]:
                if dv["v"][0] == "a":
                    return dv["v"][1]
        return None

    def rets(self):
        return [b.term for b in self.blocks if b.term.op == "ret"]

    def where(self):
        return "%s:%d" % (relpath(self.file), self.line)


def ce_leaves(o):
    """leaves of a constant expression"""
    if o[0] == "ce":
        for x in o[3]:
            yield from ce_leaves(x)
    else:
        yield o


class Module:
    def __init__(self, d, path=""):
        self.d = d
        self.path = path
        self.files = d["files"]
        self.structs = d["structs"]
        self.globals = {g["name"]: g for g in d["globals"]}
        self.functions = {f["name"]: Function(f, self) for f in d["functions"]}

    def defined(self):
        return [f for f in self.functions.values() if not f.decl]

    def fn(self, name):
        f = self.functions.get(name)
        if f is None or f.decl:
            raise AnalysisBroken("function '%s' not found in the library (anchor vanished)" % name)
        if not f.has_body:
            raise AnalysisBroken("function '%s' body not exported" % name)
        return f

    def struct_field(self, sname, fname):
        """index of field `fname` in struct `sname` (matches 'struct.<sname>' with optional suffix)"""
        for k, s in self.structs.items():
            base = k[7:] if k.startswith("struct.") else k
            base = base.split(".")[0]
            if base == sname:
                for i, (n, _t) in enumerate(s["names"]):
                    if n == fname:
                        return k, i
        raise AnalysisBroken("struct field %s.%s not found" % (sname, fname))

    def gfile(self, g):
        f = g.get("f", -1)
        return relpath(self.files[f]) if f is not None and f >= 0 else ""


def load(bc_path, funcs=None, bodies=True):
    cmd = [IRDUMP, bc_path]
    if funcs is not None:
        cmd += ["--funcs", ",".join(funcs)]
    else:
        cmd += ["--all"]
    if not bodies:
        cmd += ["--no-bodies"]
    if not os.path.exists(IRDUMP):
        raise AnalysisBroken("tools/irdump is not built: run bin/setup.sh (MANIFEST.setup_cmd)")
    r = subprocess.run(cmd, stdout=subprocess.PIPE, stderr=subprocess.PIPE)
    if r.returncode != 0:
        raise AnalysisBroken("irdump failed: " + r.stderr.decode()[-2000:])
    return Module(json.loads(r.stdout), bc_path)


# ---------------------------------------------------------------- types
_arr = re.compile(r"^\[(\d+) x (.*)\]$")


def array_extent(ty):
    m = _arr.match(ty)
    return (int(m.group(1)), m.group(2)) if m else None


def exported_api(repo=None):
    """names declared with H3_EXPORT(...) in the current h3api.h.in"""
    repo = repo or build.REPO
    txt = open(os.path.join(repo, "src/h3lib/include/h3api.h.in")).read()
    txt = re.sub(r"/\*.*?\*/", "", txt, flags=re.S)
    txt = re.sub(r"//[^\n]*", "", txt)
    names = re.findall(r"H3_EXPORT\(\s*(\w+)\s*\)\s*\(", txt)
    out = []
    for n in names:
        if n not in out and n != "name":
            out.append(n)
    if len(out) < 50:
        raise AnalysisBroken("fewer than 50 exported functions parsed from h3api.h.in")
    return out


# ---------------------------------------------------------------- memory paths
def _split_types(s):
    """split 'a, b, c' at top level"""
    out, depth, cur = [], 0, ""
    for ch in s:
        if ch in "[{<(":
            depth += 1
        elif ch in "]}>)":
            depth -= 1
        if ch == "," and depth == 0:
            out.append(cur.strip()); cur = ""
        else:
            cur += ch
    if cur.strip():
        out.append(cur.strip())
    return out


def field_path(m, f, o, depth=0):
    """(base operand key, tuple of path elements) for a pointer operand.
    path elements: ('f', struct, fieldname) for struct fields, ('x', None|const) for array/pointer indexing."""
    path = []
    while depth < 64:
        depth += 1
        if o[0] == "i":
            i = f.insts[o[1]]
            if i.op == "bitcast":
                o = i.ops[0]
                continue
            if i.op == "getelementptr":
                sub = _gep_path(m, i.d.get("srcty", ""), i.ops[1:])
                path = sub + path
                o = i.ops[0]
                continue
            return (("i", i.id), tuple(path))
        if o[0] == "a":
            return (("a", o[1]), tuple(path))
        if o[0] == "g":
            return (("g", o[1]), tuple(path))
        if o[0] == "ce" and o[1] in ("getelementptr", "bitcast"):
            if o[1] == "getelementptr":
                path = _gep_path(m, o[4] if len(o) > 4 else "", o[3][1:]) + path
            o = o[3][0]
            continue
        return ((o[0],), tuple(path))
    return (("?",), tuple(path))


def _gep_path(m, ty, idxs):
    out = []
    first = True
    for ix in idxs:
        c = ix[1] if ix[0] == "c" else None
        if first:
            first = False
            if c != 0:
                out.append(("x", c))
            continue
        if ty.startswith("%struct.") or ty.startswith("%union."):
            info = m.structs.get(ty[1:])
            if info is None or c is None or c >= len(info["fields"]):
                out.append(("?", None)); ty = ""
                continue
            nm = info["names"][c][0] or str(c)
            out.append(("f", ty[8:].split(".")[0], nm))
            ty = info["fields"][c][0]
        else:
            a = array_extent(ty)
            if a:
                out.append(("x", c)); ty = a[1]
            elif ty.startswith("{"):
                parts = _split_types(ty.strip("{} "))
                out.append(("t", c)); ty = parts[c] if c is not None and c < len(parts) else ""
            else:
                out.append(("x", c))
    return out
