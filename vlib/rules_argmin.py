"""R-ARGMIN: the face-selection loop of _geoToClosestFace really computes the arg-min over ALL face centres (C02, C03).

latLngToCell projects the point onto the icosahedron face whose centre is closest.  The clause decided here is structural:
  A1  every exit of the loop that evaluates _pointSquareDist(&faceCenterPoint[f], p) is either the exhaustion test of the
      induction variable against the table's extent, or a threshold exit `d < C` whose constant is provably safe:
      C <= 2 - 2 cos(theta_min / 2), theta_min = smallest angle between two face centres OF THE TABLE (a point closer than
      half that angle to one centre is strictly closest to it).  A larger C is a definite violation: the points between the
      bisector and the threshold circle exist and are assigned to the wrong face.  Any other exit is ANALYSIS-BROKEN.
  A2  the running best is replaced exactly under `d < best` and the recorded face is the induction variable of that distance.
  A3  the initial best is at least 4.0 (the largest squared chord on the unit sphere); below the safe threshold it is a violation.
Nothing is executed; the table is read from the IR initialiser."""
import math
from . import ir
from .build import AnalysisBroken
from .tables import Tables

RULE = "R-ARGMIN"


def _strip(f, o):
    while o[0] == "i" and f.insts[o[1]].op in ("sext", "zext", "trunc", "freeze", "bitcast"):
        o = f.insts[o[1]].ops[0]
    return o


def _loop_blocks(f, header):
    """blocks on a cycle through header"""
    fwd = {header}
    todo = [header]
    while todo:
        b = todo.pop()
        for s in f.blocks[b].succs():
            if s not in fwd:
                fwd.add(s); todo.append(s)
    back = {header}
    todo = [header]
    while todo:
        b = todo.pop()
        for p in f.blocks[b].preds:
            if p not in back and p in fwd:
                back.add(p); todo.append(p)
    return {b for b in fwd if b in back and any(s in back for s in f.blocks[b].succs())}


def _fconst(o):
    if o[0] == "f":
        return float(o[1])
    return None


def check(ctx, m, cfg):
    fname = "_geoToClosestFace"
    f = m.fn(fname)
    T = Tables(m)
    centres = T.get("faceCenterPoint")
    nfaces = len(centres)
    if nfaces < 4:
        raise AnalysisBroken("faceCenterPoint has %d rows" % nfaces)
    cmax = max(sum(a * b for a, b in zip(centres[i], centres[j])) for i in range(nfaces) for j in range(i))
    theta_min = math.acos(max(-1.0, min(1.0, cmax)))
    c_safe = 2.0 - 2.0 * math.cos(theta_min / 2.0)
    fk, sk = f.arg_index("face"), f.arg_index("sqd")
    if fk is None or sk is None:
        raise AnalysisBroken("%s: parameters face/sqd not found" % fname)
    # the distance call with &faceCenterPoint[iv]
    calls = []
    for i in f.all_insts():
        if i.op == "call" and i.callee == "_pointSquareDist":
            for o in i.ops[:2]:
                base, path = ir.field_path(m, f, o)
                if base == ("g", "faceCenterPoint"):
                    calls.append((i, o))
    if len(calls) != 1:
        raise AnalysisBroken("%s: expected one _pointSquareDist(&faceCenterPoint[f], ...) call, found %d" % (fname, len(calls)))
    dcall, cptr = calls[0]
    g = f.insts[cptr[1]] if cptr[0] == "i" else None
    if g is None or g.op != "getelementptr" or len(g.ops) != 3:
        raise AnalysisBroken("%s: face centre is not addressed as faceCenterPoint[f]" % fname)
    iv = _strip(f, g.ops[2])
    if iv[0] != "i" or f.insts[iv[1]].op != "phi":
        raise AnalysisBroken("%s: the face subscript is not a loop induction variable" % fname)
    phi = f.insts[iv[1]]
    header = phi.block.idx
    loop = _loop_blocks(f, header)
    if dcall.block.idx not in loop:
        raise AnalysisBroken("%s: the distance call is not inside the loop of its subscript" % fname)
    # induction: starts at 0, +1
    start = step = None
    for o, inc in zip(phi.ops, phi.d["inc"]):
        if inc in loop:
            s = _strip(f, o)
            if s[0] == "i" and f.insts[s[1]].op == "add" and _strip(f, f.insts[s[1]].ops[0]) == iv and f.insts[s[1]].ops[1][0] == "c":
                step = f.insts[s[1]].ops[1][1]
        elif o[0] == "c":
            start = o[1]
    inst = {"function": fname, "config": cfg, "faces": nfaces, "safe_threshold": c_safe}
    if start != 0 or step != 1:
        ctx.violation(RULE, "scan:start-step", "%s scans the face centres from %s in steps of %s; all %d faces must be compared" % (fname, start, step, nfaces), phi.where(), inst)
        return 1
    # A1 exits (an exit routed through a block that switches on a phi of constants is traced back to the edge that chose the constant)
    exits = []
    for b in sorted(loop):
        t = f.blocks[b].term
        outs = [s_ for s_ in t.succs() if s_ not in loop]
        if not outs:
            continue
        if t.op != "br" or len(t.ops) != 3:
            raise AnalysisBroken("%s: loop exit through %s" % (fname, t.op))
        cond = f.insts[t.ops[0][1]] if t.ops[0][0] == "i" else None
        tb, fb = t.succs()
        exit_on_true = tb not in loop
        ph = f.insts[cond.ops[0][1]] if cond is not None and cond.op == "icmp" and cond.ops[0][0] == "i" else None
        if ph is not None and ph.op == "phi" and ph.block.idx == b and cond.ops[1][0] == "c" and all(o[0] == "c" for o in ph.ops) and cond.pred in ("eq", "ne"):
            for o, inc in zip(ph.ops, ph.d["inc"]):
                truth = (o[1] == cond.ops[1][1]) == (cond.pred == "eq")
                if truth != exit_on_true:
                    continue        # this incoming edge continues the loop
                pt = f.blocks[inc].term
                if pt.op != "br" or len(pt.ops) != 3 or pt.ops[0][0] != "i":
                    raise AnalysisBroken("%s: loop exit chosen by an unconditional edge from block %s" % (fname, f.blocks[inc].name))
                ptb, pfb = pt.succs()
                if (ptb == b) == (pfb == b):
                    raise AnalysisBroken("%s: ambiguous edge into the exit switch" % fname)
                exits.append((f.insts[pt.ops[0][1]], ptb == b, pt))
            continue
        exits.append((cond, exit_on_true, t))
    nexits = 0
    for cond, exit_on_true, t in exits:
        nexits += 1
        if cond is not None and cond.op == "icmp" and _strip(f, cond.ops[0]) == iv and cond.ops[1][0] == "c":
            k = cond.ops[1][1]
            pred = cond.pred
            # continue while iv < k  /  exit when iv >= k ...
            bound = None
            if not exit_on_true and pred in ("ult", "slt"): bound = k
            if not exit_on_true and pred in ("ule", "sle"): bound = k + 1
            if not exit_on_true and pred == "ne": bound = k
            if exit_on_true and pred in ("uge", "sge", "eq"): bound = k
            if exit_on_true and pred in ("ugt", "sgt"): bound = k + 1
            if bound is None:
                raise AnalysisBroken("%s: exhaustion test of unrecognised form (%s %d)" % (fname, pred, k))
            if bound < nfaces:
                ctx.violation(RULE, "scan:bound", "%s stops scanning after face %d; faceCenterPoint has %d centres and each must be compared" % (fname, bound - 1, nfaces), cond.where(), inst)
            elif bound > nfaces:
                ctx.violation(RULE, "scan:bound", "%s scans %d face centres but faceCenterPoint has %d rows" % (fname, bound, nfaces), cond.where(), inst)
            else:
                ctx.ok(RULE, dict(inst, exit="exhaustion at %d" % bound), "the loop leaves when the induction variable reaches the table extent")
            continue
        if cond is not None and cond.op == "fcmp":
            a, b2 = cond.ops
            ca, cb = _fconst(a), _fconst(b2)
            isd = lambda o: _strip(f, o) == ["i", dcall.id] or (o[0] == "i" and f.insts[o[1]].op == "load" and ir.field_path(m, f, f.insts[o[1]].ops[0]) == (("a", sk), ()))
            thr = None
            if cb is not None and isd(a) and ((exit_on_true and cond.pred in ("olt", "ole", "ult", "ule")) or (not exit_on_true and cond.pred in ("oge", "ogt", "uge", "ugt"))):
                thr = cb
            if ca is not None and isd(b2) and ((exit_on_true and cond.pred in ("ogt", "oge", "ugt", "uge")) or (not exit_on_true and cond.pred in ("ole", "olt", "ule", "ult"))):
                thr = ca
            if thr is None:
                raise AnalysisBroken("%s: early exit on a floating-point condition of unrecognised form at %s" % (fname, cond.where()))
            if thr > c_safe:
                ctx.violation(RULE, "scan:early-exit", "%s stops at the first face whose squared distance is below %.9g, but a face is certainly the closest only below "
                              "2 - 2cos(theta_min/2) = %.9g (theta_min = %.6f rad, the smallest angle between two centres of faceCenterPoint): points between the two "
                              "radii near a face edge are assigned to the lower-numbered face" % (fname, thr, c_safe, theta_min), cond.where(), dict(inst, threshold=thr))
            else:
                ctx.ok(RULE, dict(inst, exit="threshold %.9g" % thr), "early exit below %.9g <= safe radius %.9g" % (thr, c_safe))
            continue
        raise AnalysisBroken("%s: loop exit on a condition the rule cannot interpret at %s" % (fname, t.where()))
    if nexits == 0:
        raise AnalysisBroken("%s: no loop exit found" % fname)
    # A2 update: either through the output parameters inside the loop, or in loop-carried locals that are stored once after the loop
    st_face = [i for i in f.all_insts() if i.op == "store" and i.block.idx in loop and ir.field_path(m, f, i.ops[1]) == (("a", fk), ())]
    st_sqd = [i for i in f.all_insts() if i.op == "store" and i.block.idx in loop and ir.field_path(m, f, i.ops[1]) == (("a", sk), ())]
    phi_form = None
    if not st_face and not st_sqd:
        outf = [i for i in f.all_insts() if i.op == "store" and i.block.idx not in loop and ir.field_path(m, f, i.ops[1]) == (("a", fk), ()) and i.ops[0][0] == "i" and f.insts[i.ops[0][1]].op == "phi" and f.insts[i.ops[0][1]].block.idx == header]
        outs = [i for i in f.all_insts() if i.op == "store" and i.block.idx not in loop and ir.field_path(m, f, i.ops[1]) == (("a", sk), ()) and i.ops[0][0] == "i" and f.insts[i.ops[0][1]].op == "phi" and f.insts[i.ops[0][1]].block.idx == header]
        if len(outf) == 1 and len(outs) == 1:
            pf, ps = f.insts[outf[0].ops[0][1]], f.insts[outs[0].ops[0][1]]

            def carried(p):
                init = upd = None
                for o, inc in zip(p.ops, p.d["inc"]):
                    if inc in loop:
                        upd = o
                    else:
                        init = o
                return init, upd
            (fi, fu), (si, su) = carried(pf), carried(ps)
            sel_f = f.insts[fu[1]] if fu is not None and fu[0] == "i" and f.insts[fu[1]].op == "select" else None
            sel_s = f.insts[su[1]] if su is not None and su[0] == "i" and f.insts[su[1]].op == "select" else None
            if sel_f is not None and sel_s is not None and sel_f.ops[0] == sel_s.ops[0] and sel_f.ops[0][0] == "i":
                phi_form = (pf, ps, sel_f, sel_s, si, f.insts[sel_f.ops[0][1]])
    if phi_form is not None:
        pf, ps, sel_f, sel_s, si, cond = phi_form
        okv = (_strip(f, sel_f.ops[1]) == iv and sel_f.ops[2] == ["i", pf.id] and _strip(f, sel_s.ops[1]) == ["i", dcall.id] and sel_s.ops[2] == ["i", ps.id])
        okv_neg = (_strip(f, sel_f.ops[2]) == iv and sel_f.ops[1] == ["i", pf.id] and _strip(f, sel_s.ops[2]) == ["i", dcall.id] and sel_s.ops[1] == ["i", ps.id])
        if cond.op != "fcmp" or not (okv or okv_neg):
            raise AnalysisBroken("%s: the loop-carried best / face are not updated by a pair of selects on one comparison" % fname)
        a, b2 = cond.ops
        isd = lambda o: _strip(f, o) == ["i", dcall.id]
        isbest = lambda o: o == ["i", ps.id]
        if isd(a) and isbest(b2):
            smaller = cond.pred in ("olt", "ole") if okv else cond.pred in ("uge", "ugt")
        elif isbest(a) and isd(b2):
            smaller = cond.pred in ("ogt", "oge") if okv else cond.pred in ("ule", "ult")
        else:
            raise AnalysisBroken("%s: update is not guarded by a comparison of the distance with the running best" % fname)
        if smaller:
            ctx.ok(RULE, dict(inst, clause="update"), "best and face (loop-carried locals, stored after the loop) are replaced exactly when the new distance is smaller than the running best")
        else:
            ctx.violation(RULE, "update:direction", "%s replaces the running best when the new distance is NOT smaller" % fname, cond.where(), inst)
        v0 = _fconst(si) if si is not None else None
        if v0 is None:
            raise AnalysisBroken("%s: the initial best is not a constant" % fname)
        if v0 >= 4.0:
            ctx.ok(RULE, dict(inst, clause="initial best", value=v0), "initial best %.3g is at least the largest squared chord 4.0" % v0)
        elif v0 <= c_safe:
            ctx.violation(RULE, "init", "%s starts with best = %.9g although squared distances up to %.9g certainly occur: such points keep face 0" % (fname, v0, c_safe), ps.where(), inst)
        else:
            ctx.undecided_site(RULE, "%s: initial best %.9g is below 4.0; whether every point is closer than that to some face centre is not decided" % (fname, v0))
        return nexits + 2
    if len(st_face) != 1 or len(st_sqd) != 1 or st_face[0].block.idx != st_sqd[0].block.idx:
        raise AnalysisBroken("%s: the update of *face / *sqd inside the loop is not one block with one store each" % fname)
    ub = st_face[0].block
    if _strip(f, st_face[0].ops[0]) != iv or _strip(f, st_sqd[0].ops[0]) != ["i", dcall.id]:
        ctx.violation(RULE, "update:values", "%s records a face / distance other than the induction variable and its own distance" % fname, st_face[0].where(), inst)
    elif len(ub.preds) != 1:
        raise AnalysisBroken("%s: update block has several predecessors" % fname)
    else:
        pt = f.blocks[ub.preds[0]].term
        cond = f.insts[pt.ops[0][1]] if pt.op == "br" and len(pt.ops) == 3 and pt.ops[0][0] == "i" else None
        good = False
        if cond is not None and cond.op == "fcmp":
            on_true = pt.succs()[0] == ub.idx
            a, b2 = cond.ops
            isbest = lambda o: o[0] == "i" and f.insts[o[1]].op == "load" and ir.field_path(m, f, f.insts[o[1]].ops[0]) == (("a", sk), ())
            isd = lambda o: _strip(f, o) == ["i", dcall.id]
            if isd(a) and isbest(b2):
                good = (on_true and cond.pred in ("olt", "ole")) or (not on_true and cond.pred in ("uge", "ugt"))
            elif isbest(a) and isd(b2):
                good = (on_true and cond.pred in ("ogt", "oge")) or (not on_true and cond.pred in ("ule", "ult"))
            else:
                raise AnalysisBroken("%s: update is not guarded by a comparison of the distance with the running best" % fname)
        else:
            raise AnalysisBroken("%s: update is not guarded by a floating-point comparison" % fname)
        if good:
            ctx.ok(RULE, dict(inst, clause="update"), "best and face are replaced exactly when the new distance is smaller than the running best")
        else:
            ctx.violation(RULE, "update:direction", "%s replaces the running best when the new distance is NOT smaller" % fname, cond.where(), inst)
    # A3 initial best
    init = [i for i in f.all_insts() if i.op == "store" and i.block.idx not in loop and ir.field_path(m, f, i.ops[1]) == (("a", sk), ())]
    if len(init) != 1 or _fconst(init[0].ops[0]) is None:
        raise AnalysisBroken("%s: initial *sqd is not one constant store before the loop" % fname)
    v0 = _fconst(init[0].ops[0])
    if v0 >= 4.0:
        ctx.ok(RULE, dict(inst, clause="initial best", value=v0), "initial best %.3g is at least the largest squared chord 4.0" % v0)
    elif v0 <= c_safe:
        ctx.violation(RULE, "init", "%s starts with best = %.9g; points farther than that from face 0... every face keep face 0 (squared distances up to %.9g certainly occur)" % (fname, v0, c_safe), init[0].where(), inst)
    else:
        ctx.undecided_site(RULE, "%s: initial best %.9g is below 4.0; whether every point is closer than that to some face centre is not decided" % (fname, v0))
    return nexits + 2
