"""R-PROG: a constant table that is a progression has no deviant entry (after Engler et al., "bugs as deviant behaviour").

A per-resolution table of powers (7^r, sqrt(7)^r, 1/7^r ...) or of equally spaced values is recognised by itself: all entries positive and three
quarters of the consecutive ratios (resp. differences) agree closely (to 1e-6 at least; their spread is the table's own noise level).  Entries next
to a step that deviates by more than 1e-12 and by more than 1000 times that noise level are then wrong digits, not design: the table is used as `t[res]` in place of the repeated multiplication it replaces (C02: the scale of the face plane
per resolution; C06/C13: children counts).  Tables that are not exact progressions (measured averages, lookup maps) never qualify and are not
judged.  The detector itself is exercised on every run with a built-in correct and a built-in perturbed progression."""
import statistics
from . import tables
from .build import AnalysisBroken

RULE = "R-PROG"
TOL = 1e-12


def deviants(v):
    """None when v is not (mostly) a progression; else the list of positions whose entry breaks it (empty = exact progression)"""
    if len(v) < 6 or not all(isinstance(x, (int, float)) and x > 0 and x == x and x != float("inf") for x in v):
        return None
    for kind in ("ratio", "diff"):
        steps = [v[i + 1] / v[i] for i in range(len(v) - 1)] if kind == "ratio" else [v[i + 1] - v[i] for i in range(len(v) - 1)]
        med = statistics.median(steps)
        if med == 0 or (kind == "ratio" and abs(med - 1) < 1e-9):
            continue
        dev = [abs(s_ / med - 1) for s_ in steps]
        # the table's own noise level (literals written with fewer digits agree less closely): a deviant step stands out from it by orders of magnitude
        q3 = sorted(dev)[(3 * len(dev)) // 4 - 1]
        if q3 > 1e-6:
            continue
        off = [i for i, d_ in enumerate(dev) if d_ > max(TOL, 1000 * q3)]
        if len(off) * 4 > len(steps):
            continue
        # a wrong interior entry k spoils steps k-1 and k; a wrong first/last entry spoils one step
        bad = set()
        for i in off:
            if i + 1 in off or i == len(steps) - 1 and i - 1 not in off:
                bad.add(i + 1)
            elif i == 0:
                bad.add(0)
            elif i - 1 not in off:
                bad.add(i + 1)
        return sorted(bad), kind, med
    return None


def check(ctx, m, cfg, globals_reached=None):
    # the detector on built-in examples (a rule whose expected count on today's tree is zero must still be seen to fire)
    good = [7.0 ** (0.5 * r) for r in range(16)]
    wrong = list(good)
    wrong[3] *= 1 + 3e-8
    d1, d2 = deviants(good), deviants(wrong)
    rounded = [float("%.10g" % x) for x in good]          # the same table written with ten digits: noisy, but no entry stands out
    d3 = deviants(rounded)
    if d1 is None or d1[0] or d2 is None or d2[0] != [3] or d3 is None or d3[0] or deviants([4.3e6, 6.1e5, 8.7e4, 1.2e4, 1.8e3, 2.5e2, 36.1]) is not None:
        raise AnalysisBroken("the progression detector fails its built-in examples")
    ctx.ok(RULE, {"instance": "detector self-example", "config": cfg}, "sqrt(7)^r for r = 0..15 is accepted, the same table with entry 3 off by 3e-8 is reported at entry 3, a table of measured averages does not qualify")
    T = tables.Tables(m)
    n = 1
    for g, info in sorted(m.globals.items()):
        if "init" not in info or not info.get("const"):
            continue
        if globals_reached is not None and g not in globals_reached:
            continue
        try:
            v = T.get(g)
        except AnalysisBroken:
            continue
        if not isinstance(v, list) or any(isinstance(x, list) for x in v):
            continue
        d = deviants(v)
        if d is None:
            continue
        n += 1
        bad, kind, med = d
        inst = {"table": info.get("dname", g), "entries": len(v), "progression": "%s %.17g" % ("ratio" if kind == "ratio" else "difference", med), "config": cfg}
        if bad:
            k = bad[0]
            ref = (v[k - 1] * med if k > 0 else v[1] / med) if kind == "ratio" else (v[k - 1] + med if k > 0 else v[1] - med)
            ctx.violation(RULE, "prog:%s:%d" % (info.get("dname", g), k),
                          "%s is a progression (%s %.17g between consecutive entries, %d of %d steps agree to 1e-12) except at entry %d: %.17g where the progression gives %.17g"
                          % (info.get("dname", g), "ratio" if kind == "ratio" else "difference", med, len(v) - 1 - len([1 for _ in bad]) , len(v) - 1, k, v[k], ref),
                          "%s:%s" % (m.gfile(info), info.get("l", "?")), inst)
        else:
            ctx.ok(RULE, inst, "all %d consecutive steps agree to 1e-12" % (len(v) - 1))
    return n
