"""R-OVF: the overflow-checked helpers really exclude signed overflow (C12, C09 'up to the int32 overflow guards').

Instances are the functions that call the repository's own overflow predicates (ADD_INT32S_OVERFLOWS, SUB_INT32S_OVERFLOWS,
_ijkNormalizeCouldOverflow): they promise to fail instead of overflowing.  Each is explored with its inputs free (coordinates
documented non-negative are assumed >= 0); at every `nsw` add/sub/mul/shl the operand ranges learnt from the path's conditions must
exclude signed wrap.  A possible wrap on a path whose conditions were all interpreted exactly is a VIOLATION (undefined behaviour
reachable from localIjToCell / gridDistance inputs); behind a condition the engine cannot interpret it is listed as undecided.
"""
from . import ir, explore
from .explore import Explorer, to_signed_ivs
from .build import AnalysisBroken

PREDICATES = ("ADD_INT32S_OVERFLOWS", "SUB_INT32S_OVERFLOWS", "_ijkNormalizeCouldOverflow")
# coordinate inputs documented non-negative ("i, j, and k must all be non-negative": normalised IJK+ coordinates)
NONNEG_INPUT = {"_upAp7Checked": "ijk", "_upAp7rChecked": "ijk"}


def instances(m):
    out = []
    for f in m.defined():
        if f.name in PREDICATES:
            continue
        if any(i.op == "call" and i.callee in PREDICATES for i in f.all_insts()):
            if any(i.d.get("nsw") for i in f.all_insts()):
                out.append(f)
    return out


def check(ctx, m, cfg, rule="R-OVF"):
    fs = instances(m)
    for f in fs:
        adef = {}
        if f.name in NONNEG_INPUT:
            pk = f.arg_index(NONNEG_INPUT[f.name])
            if pk is None:
                ctx.broken(rule, "%s: parameter %s not found" % (f.name, NONNEG_INPUT[f.name]))
                continue
            # loads of the coordinate fields before any store to them
            stored = False
            for i in f.blocks[0].insts:
                if i.op == "store":
                    break
                if i.op == "load" and i.type == "i32" and ir.field_path(m, f, i.ops[0])[0] == ("a", pk):
                    adef[i.id] = explore.mk(32, [(0, (1 << 31) - 1)])
        bad, und = [], []
        okc = [0]

        class P:
            def on_inst(self, ex, s, i):
                if not i.d.get("nsw") or i.op not in ("add", "sub", "mul", "shl") or not i.type.startswith("i"):
                    return None
                w = int(i.type[1:])
                a, b = ex.eval(i.ops[0], s.env), ex.eval(i.ops[1], s.env)
                fa = a if a is not None and a[0] == "int" else explore.full(w)
                fb = b if b is not None and b[0] == "int" else explore.full(w)
                if explore.is_empty(fa) or explore.is_empty(fb):
                    return None
                sa, sb = to_signed_ivs(fa), to_signed_ivs(fb)
                alo, ahi, blo, bhi = sa[0][0], sa[-1][1], sb[0][0], sb[-1][1]
                if i.op == "add":
                    lo, hi = alo + blo, ahi + bhi
                elif i.op == "sub":
                    lo, hi = alo - bhi, ahi - blo
                elif i.op == "mul":
                    c = [alo * blo, alo * bhi, ahi * blo, ahi * bhi]
                    lo, hi = min(c), max(c)
                else:
                    if blo != bhi or blo >= w:
                        return None
                    lo, hi = alo << blo, ahi << blo
                half = 1 << (w - 1)
                if lo < -half or hi >= half:
                    (und if s.env.get(("flag", "approx")) else bad).append((i, s, (alo, ahi), (blo, bhi)))
                else:
                    okc[0] += 1
                return None
        try:
            Explorer(f, assume_def=adef, plugin=P()).run()
        except AnalysisBroken as e:
            ctx.broken(rule, "%s: %s" % (f.name, e))
            continue
        inst = {"function": f.name, "nsw_sites_proven": okc[0], "config": cfg, "nonneg_inputs_assumed": bool(adef)}
        if bad:
            i, s, ra, rb = bad[0]
            ctx.violation(rule, "overflow:%s:%s" % (f.name, i.name or i.op),
                          "%s: signed '%s' at %s can overflow: operands range over %s and %s on a path whose conditions (lines %s) were all interpreted - the overflow guard does not cover it"
                          % (f.name, i.op, i.where(), list(ra), list(rb), explore.trail_lines(f, s.trail)), i.where(), inst)
        else:
            for i, s, ra, rb in und[:4]:
                ctx.undecided_site(rule, "%s: '%s' at %s not proven by intervals behind a relational guard" % (f.name, i.op, i.where()))
            ctx.ok(rule, inst, "no signed wrap is possible on any path whose conditions the interval engine interprets exactly (%d nsw evaluations proven, %d behind relational guards listed undecided)" % (okc[0], len(und)))
    return len(fs)
