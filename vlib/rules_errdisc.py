"""R-ERRDISC: no H3Error produced inside the library is dropped (error discipline, after Engler et al.; C12).

Every call whose callee returns H3Error must use the returned code (test it, return it, store it).  The rule was inferred from the
code base (89 of 96 call sites use the code) and every exception was confirmed by reading; exceptions are frozen below, keyed by
(caller, callee) - never by line - with the reason the failure cannot occur there.  A new unchecked call site is a VIOLATION naming it.
"""
from .build import AnalysisBroken

EXCEPTIONS = {
    ("polygonToCells", "cellToLatLng"): (1, "the cell comes out of gridDisk's ring and is non-null: a valid cell, cellToLatLng cannot fail"),
    ("_hexRadiusKm", "cellToLatLng"): (1, "the cell was just produced by latLngToCell in bboxHexEstimate/lineHexEstimate: valid"),
    ("_hexRadiusKm", "cellToBoundary"): (1, "same cell as above: valid"),
    ("maxPolygonToCellsSizeExperimental", "cellToChildrenSize"): (1, "iterator cells have resolution <= the validated target resolution"),
    ("getAverageCellArea", "getHexagonAreaAvgKm2"): (1, "only called with iter._res - 1 inside 0..15, validated by the iterator initialisation"),
    ("areNeighborCells", "cellToParent"): (2, "both cells were validated and have resolution > 0; parentRes = res - 1 is in range"),
}


def check(ctx, m, cfg, rule="R-ERRDISC"):
    h3 = {f.name for f in m.defined() if f.d.get("ditypes", [""])[0] == "H3Error"}
    total = 0
    unchecked = {}
    for f in m.defined():
        for i in f.all_insts():
            if i.op == "call" and i.callee in h3:
                total += 1
                if not f.users(("i", i.id)):
                    unchecked.setdefault((i.src_fn, i.callee), []).append(i)
    ctx.floor(rule, "call sites of H3Error-returning functions", total, 80)
    nviol = 0
    for key, sites in sorted(unchecked.items()):
        allowed, reason = EXCEPTIONS.get(key, (0, ""))
        if len(sites) > allowed:
            for i in sites[allowed:] if allowed else sites:
                nviol += 1
                ctx.violation(rule, "dropped:%s:%s" % key,
                              "%s calls %s and drops the returned H3Error: a failure of the callee is turned into success/garbage (%d such site(s) are known-safe exceptions for this pair)"
                              % (key[0], key[1], allowed), i.where(), {"caller": key[0], "callee": key[1], "config": cfg})
        else:
            ctx.ok(rule, {"caller": key[0], "callee": key[1], "sites": len(sites), "exception": True, "config": cfg}, "frozen exception: " + reason)
    ctx.ok(rule, {"call_sites": total, "using_the_code": total - sum(len(v) for v in unchecked.values()), "config": cfg},
           "every other call site tests, returns or stores the callee's H3Error")
    return total
