"""Constant tables of the library as Python values (from the IR initialisers) + small kernel extraction."""
import re
from . import ir
from .build import AnalysisBroken


def _expand_zero(m, ty):
    ty = ty.strip()
    a = ir.array_extent(ty)
    if a:
        return [_expand_zero(m, a[1]) for _ in range(a[0])]
    if ty.startswith("%struct.") or ty.startswith("%union."):
        info = m.structs.get(ty[1:])
        if info is None:
            raise AnalysisBroken("unknown struct in initialiser: " + ty)
        return [_expand_zero(m, t) for t, _off in info["fields"]]
    if ty.startswith("<{") or ty.startswith("{"):
        inner = ty.strip("<>").strip()[1:-1]
        return [_expand_zero(m, t) for t in ir._split_types(inner)]
    if ty in ("double", "float"):
        return 0.0
    return 0


def _val(m, c):
    k = c[0]
    if k == "c":
        v, bits = c[1], c[2]
        if bits == 1:
            return v
        return v - (1 << bits) if v >> (bits - 1) else v
    if k == "f":
        v = c[1]
        return float(v) if not isinstance(v, str) else float(v)
    if k == "agg":
        return [_val(m, x) for x in c[1]]
    if k == "zero":
        return _expand_zero(m, c[1])
    if k == "str":
        return [ord(ch) for ch in c[1]]
    if k == "null":
        return None
    if k in ("g", "ce"):
        return c
    if k == "undef":
        return 0
    raise AnalysisBroken("unhandled constant kind in table: %r" % (k,))


def _flatten_packed(v):
    # <{ [118 x i8], [10 x i8] }> packed initialisers: concatenate
    if isinstance(v, list) and v and all(isinstance(x, list) for x in v) and all(all(not isinstance(y, list) for y in x) for x in v):
        return v
    return v


class Tables:
    def __init__(self, m):
        self.m = m
        self.cache = {}

    def has(self, name):
        return name in self.m.globals and "init" in self.m.globals[name]

    def get(self, name, fn=None):
        """table by source name; function-local tables via fn ('fn.name' or '__const.fn.name')"""
        cands = [name] if fn is None else ["%s.%s" % (fn, name), "__const.%s.%s" % (fn, name)]
        # linked duplicates get a numeric suffix: accept exactly one base + identical copies
        for c in cands:
            if c in self.cache:
                return self.cache[c]
            g = self.m.globals.get(c)
            if g is not None and "init" in g:
                v = _val(self.m, g["init"])
                if g["type"].startswith("<{"):
                    v = [x for part in v for x in part]
                self.cache[c] = v
                return v
        raise AnalysisBroken("table '%s'%s not found among the module's constants (anchor vanished)" % (name, " of " + fn if fn else ""))

    def copies(self, name):
        """all linked copies of a file-static table (name, name.NN)"""
        out = []
        for g in self.m.globals:
            if g == name or re.match(re.escape(name) + r"\.\d+$", g):
                out.append((g, self.get(g)))
        return out

    def where(self, name, fn=None):
        for c in ([name] if fn is None else ["%s.%s" % (fn, name), "__const.%s.%s" % (fn, name)]):
            g = self.m.globals.get(c)
            if g is not None:
                return "%s:%s" % (self.m.gfile(g), g.get("l", "?")) if g.get("l") else "(local constant of %s)" % fn
        return "?"


def const_return(m, fname):
    """the constant a function returns on every path, else None"""
    f = m.fn(fname)
    vals = set()
    for r in f.rets():
        if not r.ops or r.ops[0][0] != "c":
            return None
        vals.add(ir.cint_signed(r.ops[0]))
    return vals.pop() if len(vals) == 1 else None


def switch_map(m, fname):
    """{case value: returned constant} + default for a function of the shape `switch (arg) { case c: return k; } return arg/const`;
    any other pure function of one small integer (a table lookup, an if chain) is tabulated by exact evaluation over the digit domain"""
    try:
        return _switch_map(m, fname)
    except AnalysisBroken as e0:
        from . import ceval
        f = m.fn(fname)
        if len(f.args) != 1 or f.args[0]["type"].endswith("*"):
            raise
        try:
            w = int(f.args[0]["type"][1:])
            ev = lambda v: ceval._sg(ceval.Eval(m, f, [v & ((1 << w) - 1)], {}).run(), w)
            out = {v: ev(v) for v in range(0, 8)}
            probe = [8, 9, 15, 100, -1]
            rest = [ev(v) for v in probe]
        except AnalysisBroken:
            raise e0
        default = "identity" if rest == probe else (rest[0] if len(set(rest)) == 1 else None)
        if default == "identity":
            out = {v: r for v, r in out.items() if r != v}
        return out, default


def _switch_map(m, fname):
    f = m.fn(fname)
    sw = [i for i in f.all_insts() if i.op == "switch"]
    if len(sw) != 1 or sw[0].ops[0][0] != "a":
        raise AnalysisBroken("%s is not a single switch over its argument" % fname)
    sw = sw[0]
    rets = f.rets()
    if len(rets) != 1 or not rets[0].ops or rets[0].ops[0][0] != "i":
        raise AnalysisBroken("%s: unexpected return shape" % fname)
    phi = f.insts[rets[0].ops[0][1]]
    if phi.op != "phi":
        raise AnalysisBroken("%s: return is not a phi of constants" % fname)
    by_block = {}
    for o, b in zip(phi.ops, phi.d["inc"]):
        by_block[b] = o
    out = {}
    for cv, dest in sw.d["cases"]:
        # dest is either the ret block itself (incoming from switch block) or a forwarding block
        o = by_block.get(dest)
        if dest == phi.block.idx:
            o = by_block.get(sw.block.idx)
        if o is None:
            raise AnalysisBroken("%s: case %d does not map to a constant" % (fname, cv))
        if o[0] == "c":
            out[cv] = ir.cint_signed(o)
        elif o[0] == "a":
            out[cv] = cv
        else:
            raise AnalysisBroken("%s: case %d returns a non-constant" % (fname, cv))
    d = by_block.get(sw.block.idx) if sw.d["default"] == phi.block.idx else by_block.get(sw.d["default"])
    default = "identity" if (d is not None and d[0] == "a") else (ir.cint_signed(d) if d is not None and d[0] == "c" else None)
    return out, default


def kernel_vectors(m, tabs, fname):
    """(iVec, jVec, kVec) of a linear IJK kernel `scale three constant vectors by i, j, k; add; normalise`"""
    f = m.fn(fname)
    vecs = []
    for n in ("iVec", "jVec", "kVec"):
        try:
            vecs.append(tabs.get(n, fname))
        except AnalysisBroken:
            lin = _kernel_linear(m, f)
            if lin is not None:
                return lin
            raise AnalysisBroken("%s: constant vector %s not found (kernel no longer has the shape 'scale three constant vectors; add; normalise')" % (fname, n))
    callees = [i.callee for i in f.all_insts() if i.op == "call" and i.callee and not i.callee.startswith("llvm.")]
    need = {"_ijkScale": 3, "_ijkAdd": 2, "_ijkNormalize": 1}
    for c, n in need.items():
        if callees.count(c) != n:
            raise AnalysisBroken("%s: expected %d call(s) to %s, found %d (kernel shape changed)" % (fname, n, c, callees.count(c)))
    return vecs


def _kernel_linear(m, f):
    """the same kernel written as plain arithmetic: new (i, j, k) = integer-linear forms of the old (i, j, k), then _ijkNormalize.
    -> [iVec, jVec, kVec] (the images of the unit vectors), or None when the function does not have that shape"""
    names = ("i", "j", "k")

    def field(o):
        base, path = ir.field_path(m, f, o)
        if base == ("a", 0) and len(path) == 1 and path[0][0] == "f" and path[0][2] in names:
            return path[0][2]
        return None
    stores = [x for x in f.all_insts() if x.op == "store" and field(x.ops[1])]
    loads = [x for x in f.all_insts() if x.op == "load" and field(x.ops[0])]
    norm = [x for x in f.all_insts() if x.op == "call" and x.callee == "_ijkNormalize"]
    other = [x for x in f.all_insts() if x.op == "call" and x.callee and not x.callee.startswith("llvm.") and x.callee != "_ijkNormalize"]
    if len(f.blocks) != 1 or len(stores) != 3 or len(norm) != 1 or other or not loads:
        return None
    if max(l.id for l in loads) > min(s_.id for s_ in stores) or norm[0].id < max(s_.id for s_ in stores):
        return None

    def lin(o, depth=0):
        if depth > 12:
            return None
        if o[0] == "c":
            return None if ir.cint_signed(o) != 0 else (0, 0, 0)
        if o[0] != "i":
            return None
        i = f.insts[o[1]]
        if i.op == "load":
            n = field(i.ops[0])
            return tuple(1 if x == n else 0 for x in names) if n else None
        if i.op in ("add", "sub"):
            a, b = lin(i.ops[0], depth + 1), lin(i.ops[1], depth + 1)
            if a is None or b is None:
                return None
            sg = 1 if i.op == "add" else -1
            return tuple(x + sg * y for x, y in zip(a, b))
        if i.op in ("mul", "shl") and i.ops[1][0] == "c":
            a = lin(i.ops[0], depth + 1)
            if a is None:
                return None
            k = ir.cint_signed(i.ops[1]) if i.op == "mul" else (1 << i.ops[1][1])
            return tuple(x * k for x in a)
        if i.op == "mul" and i.ops[0][0] == "c":
            a = lin(i.ops[1], depth + 1)
            return None if a is None else tuple(x * ir.cint_signed(i.ops[0]) for x in a)
        return None
    rows = {}
    for s_ in stores:
        l_ = lin(s_.ops[0])
        if l_ is None or field(s_.ops[1]) in rows:
            return None
        rows[field(s_.ops[1])] = l_
    if set(rows) != set(names):
        return None
    # column c = image of unit vector c
    return [[rows[r][c] for r in names] for c in range(3)]
