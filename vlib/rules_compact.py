"""R-FAMILY: the family-size decisions of compactCells agree with the number of children a parent has (C06: canonical, lossless).

compactCells counts, in the reserved bits of a hashed parent, how many of its children were seen (bits = children - 1).  A parent has
7 children, a pentagon 6 (cellToChildrenSize / the child iterator, R-BITPROV).  Three kinds of sites read the counter; each is explored
from the load of the hashed entry for every counter value b = 0..7 and both answers p of isPentagon(entry without the counter), and
what the site does is compared with the counting argument:

(counters beyond the family size are unreachable, given the insert site, and are not examined)

  insert   (a site that can return E_DUPLICATE_INPUT): it does so exactly when one more child would exceed the family, b + 2 > (p ? 6 : 7);
  collect  (a site that stores the entry into another work array): it does so exactly when the family is complete, b + 1 == (p ? 6 : 7);
           a complete pentagon is written back with counter 6 so that the lookup below recognises it;
  lookup   (a site that stores into the output): with the probed entry equal to the cell's parent and b == 6 the cell is NOT copied to the
           output (its parent replaces it), with any other b it can be.

A site of the first two kinds whose behaviour for some b is not determined by b and isPentagon does not consult isPentagon: when the predicate
it calls instead is the base-cell test (true for all cells of a pentagon base cell, which have 7 children unless they are the pentagon itself)
that is a VIOLATION, any other unknown predicate is ANALYSIS-BROKEN.

bulk copies: a memcpy from a work array into the output skips the classification, which is only right when fewer cells are left than the
smallest family (6): on every path to it the element count must be bounded by 5.  A bound of 6 or more is a VIOLATION (six cells can be the
complete family of a pentagon), no derivable bound is ANALYSIS-BROKEN.
"""
from . import ir, explore, bits
from .explore import Explorer, const, mk
from .build import AnalysisBroken

RULE = "R-FAMILY"
FN = "compactCells"
RES_OFF, RES_W = 56, 3
E_DUPLICATE_INPUT = 10
WEAKER = {"_isBaseCellPentagon": "true for every cell of a pentagon base cell; all of them except the pentagon itself have 7 children",
          "_isBaseCellPolarPentagon": "only the two polar pentagons"}


def _dominators(f):
    n = len(f.blocks)
    dom = {0: {0}}
    for b in range(1, n):
        dom[b] = set(range(n))
    ch = True
    while ch:
        ch = False
        for b in range(1, n):
            ps = f.blocks[b].preds
            if not ps:
                continue
            new = set.intersection(*[dom[p] for p in ps]) | {b}
            if new != dom[b]:
                dom[b] = new
                ch = True
    return dom


def _roots(f, o, seen=None):
    """where a pointer comes from: ('a', k) | ('alloc', id) | ('i', id)"""
    seen = set() if seen is None else seen
    if o[0] == "a":
        return {("a", o[1])}
    if o[0] != "i":
        return {(o[0],)}
    if o[1] in seen:
        return set()
    seen.add(o[1])
    i = f.insts[o[1]]
    if i.op in ("bitcast", "getelementptr"):
        return _roots(f, i.ops[0], seen)
    if i.op == "phi":
        out = set()
        for x in i.ops:
            out |= _roots(f, x, seen)
        return out
    if i.op == "call" and i.callee in ("malloc", "calloc") or (i.op == "call" and (i.callee or "").endswith("malloc")) or (i.op == "call" and (i.callee or "").endswith("calloc")):
        return {("alloc", i.id)}
    return {("i", i.id)}


class _Obs:
    """events on the paths from a site to the next iteration of an enclosing loop / a return"""
    def __init__(self, m, f, dom, start, entry_roots):
        self.m, self.f = m, f
        self.start = start
        self.sd = dom[start] - {start}
        self.entry_roots = entry_roots
        self.paths = []     # (end, events)

    def on_inst(self, ex, s, i):
        ev = s.env.get(("flag", "ev"), ())
        first = next(x for x in i.block.insts if x.op != "phi")
        if i is first:
            if i.block.idx in self.sd or (i.block.idx == self.start and s.env.get(("flag", "started"))):
                self.paths.append(("next", ev))
                return []
            if i.block.idx == self.start:
                s.env[("flag", "started")] = 1
        if i.op == "call" and i.callee in self.m.functions and not self.m.functions[i.callee].decl:
            # a helper that hands one of its parameters back (`return _fail(a, b, code)`): the result is that argument
            g = self.m.functions[i.callee]
            ks = {tuple(r.ops[0][:2]) if r.ops else None for r in g.rets()}
            if len(ks) == 1 and None not in ks and next(iter(ks))[0] == "a":
                k = next(iter(ks))[1]
                if k < len(i.ops):
                    s.env[("i", i.id)] = ex.eval(i.ops[k], s.env)
        if i.op == "store":
            r = _roots(self.f, i.ops[1])
            kind = "out" if any(x[0] == "a" for x in r) else "same" if r & self.entry_roots else "work" if any(x[0] == "alloc" for x in r) else "local"
            cnt = None
            if kind in ("same", "local"):
                cnt = _stored_counter(ex, self.f, i, s.env)
            s.env[("flag", "ev")] = ev + ((kind, cnt, i.id),)
        return None

    def on_ret(self, ex, s, t, av):
        sv = explore.singleton(av) if av is not None and av[0] == "int" else None
        self.paths.append(("ret:%s" % sv, s.env.get(("flag", "ev"), ())))


def _stored_counter(ex, f, st, env):
    """the counter a store writes into the reserved bits: value = (x & ~mask) | (cnt << 56) -> cnt, else None"""
    v = st.ops[0]
    if v[0] != "i":
        return explore.singleton(ex.eval(v, env)) if v[0] == "c" else None
    d = f.insts[v[1]]
    if d.op != "or":
        return None
    for a in d.ops:
        if a[0] == "i" and f.insts[a[1]].op == "shl" and f.insts[a[1]].ops[1][0] == "c" and f.insts[a[1]].ops[1][1] == RES_OFF:
            av = ex.eval(f.insts[a[1]].ops[0], env)
            return explore.singleton(av) if av is not None and av[0] == "int" else None
    return None


def check(ctx, m, cfg):
    f = m.fn(FN)
    dom = _dominators(f)
    n = 0
    sites = []
    for i in f.all_insts():
        if i.op == "load" and i.type == "i64":
            fv = bits.field_values(f, ("i", i.id), RES_OFF, RES_W)
            if fv:
                sites.append((i, fv))
    # the hash array(s): work arrays into which a value with a counter in the reserved bits is stored
    hashed = set()

    def counter_value(o):
        return o[0] == "i" and f.insts[o[1]].op == "or" and any(
            a[0] == "i" and f.insts[a[1]].op == "shl" and f.insts[a[1]].ops[1][0] == "c" and f.insts[a[1]].ops[1][1] == RES_OFF for a in f.insts[o[1]].ops)
    marked_locals = {tuple(i.ops[1][:2]) for i in f.all_insts() if i.op == "store" and counter_value(i.ops[0]) and i.ops[1][0] == "i" and f.insts[i.ops[1][1]].op == "alloca"}
    for i in f.all_insts():
        if i.op != "store":
            continue
        v = i.ops[0]
        via_local = v[0] == "i" and f.insts[v[1]].op == "load" and tuple(f.insts[v[1]].ops[0][:2]) in marked_locals
        if counter_value(v) or via_local:
            hashed |= {r for r in _roots(f, i.ops[1]) if r[0] == "alloc"}
    if not hashed:
        ctx.broken(RULE, "%s: no work array receives a value with a counter in the reserved bits (anchor vanished)" % FN)
        return 1
    sites = [(L, fv) for L, fv in sites if _roots(f, L.ops[0]) & hashed]
    roles = {}
    for L, fv in sites:
        try:
            role = _site(ctx, m, f, dom, L, fv, cfg)
            if role:
                roles.setdefault(role, 0)
                roles[role] += 1
                n += 1
        except AnalysisBroken as e:
            ctx.broken(RULE, "%s: counter read at %s: %s" % (FN, L.where(), e))
            n += 1
    for need in ("insert", "collect", "lookup"):
        if not roles.get(need) and not any(b["rule"] == RULE for b in ctx.brokens):
            ctx.broken(RULE, "%s: no %s site found among the %d reads of the reserved-bit counter (anchor vanished)" % (FN, need, len(sites)))
    try:
        n += _bulk(ctx, m, f, cfg)
    except AnalysisBroken as e:
        ctx.broken(RULE, "%s: bulk copies: %s" % (FN, e))
    return n


def _run(m, f, dom, L, fv, b, p, pcalls, extra=None):
    adef = {}
    for iid, shl in fv:
        adef[iid] = const(b << shl, int(f.insts[iid].type[1:]))
    top = RES_OFF + RES_W
    adef[L.id] = mk(64, [((hi << top) | (b << RES_OFF), ((hi << top) | (b << RES_OFF)) + (1 << RES_OFF) - 1) for hi in range(1 << (64 - top))])
    for c in pcalls:
        adef[c.id] = const(p, int(c.type[1:]))
    adef.update(extra or {})
    pl = _Obs(m, f, dom, L.block.idx, _roots(f, L.ops[0]))
    ex = Explorer(f, assume_def=adef, plugin=pl, start_block=L.block.idx)
    ex.seed_dominating = True
    ex.run()
    return pl.paths


def _derives(f, o, src, depth=0):
    """value o is computed from instruction src by bit operations only"""
    if o[0] != "i" or depth > 6:
        return False
    if o[1] == src:
        return True
    d = f.insts[o[1]]
    if d.op in ("and", "or", "lshr", "shl", "trunc", "zext", "sext", "xor"):
        return any(_derives(f, x, src, depth + 1) for x in d.ops)
    if d.op == "load":
        # a reload of the same slot
        s_ = f.insts[src]
        return s_.op == "load" and d.ops[0] == s_.ops[0]
    return False


def _site(ctx, m, f, dom, L, fv, cfg):
    region = {b for b in range(len(f.blocks)) if L.block.idx in dom[b]}
    calls = [c for c in f.all_insts() if c.op == "call" and c.block.idx in region and c.callee and not c.callee.startswith("llvm.")
             and c.type.startswith("i") and any(_derives(f, o, L.id) for o in c.ops)]
    pcalls = [c for c in calls if c.callee == "isPentagon"]
    other = [c for c in calls if c.callee != "isPentagon" and c.callee in m.functions and c.callee not in ("cellToParent",)]
    inst = {"function": FN, "counter_read": L.where(), "config": cfg}
    # a probing site decides only when the probed entry is the parent looked for: that comparison is assumed to hold
    eqs = [c for c in f.all_insts() if c.op == "icmp" and c.pred == "eq" and c.block.idx in region and any(_derives(f, o, L.id) for o in c.ops)
           and not any(o[0] == "c" for o in c.ops)]
    if len(eqs) > 1:
        raise AnalysisBroken("the probed entry is compared with another value %d times" % len(eqs))
    extra = {eqs[0].id: const(1, 1)} if eqs else {}
    # what kind of site is it?  look at everything it can do over all (b, p)
    table = {}
    for b in range(1 << RES_W):
        for p in ((0, 1) if pcalls else (None,)):
            table[(b, p)] = _run(m, f, dom, L, fv, b, p, pcalls, extra=extra)
    allev = [(end, ev) for paths in table.values() for end, ev in paths]
    if not _roots(f, L.ops[0]) & {r for r in _roots(f, L.ops[0]) if r[0] == "alloc"} or not any(True for _ in allev):
        return None
    is_insert = any(end == "ret:%d" % E_DUPLICATE_INPUT for end, ev in allev)
    is_collect = any(k == "work" for end, ev in allev for k, c_, _id in ev)
    is_lookup = any(k == "out" for end, ev in allev for k, c_, _id in ev)
    if not (is_insert or is_collect or is_lookup):
        return None         # e.g. the validation of the caller's cells (reserved bits must be 0): R-GUARD's business
    if is_insert or is_collect:
        role = "insert" if is_insert else "collect"
        inst["role"] = role
        if not pcalls:
            # the decision is taken without isPentagon(parent)
            if other and other[0].callee in WEAKER:
                ctx.violation(RULE, "%s:%s" % (role, FN), "%s: the %s site that reads the child counter at %s decides the size of the family with %s (%s) instead of isPentagon(parent): "
                              "a non-pentagon cell of a pentagon base cell has 7 children, it is treated as complete with 6"
                              % (FN, role, L.where(), other[0].callee, WEAKER[other[0].callee]), other[0].where(), inst)
                return role
            raise AnalysisBroken("the %s site does not consult isPentagon on the hashed parent (calls on it: %s)" % (role, ", ".join(sorted({c.callee for c in other})) or "none"))
        bad = []
        for (b, p), paths in sorted(table.items()):
            full_ = 6 if p else 7
            if b > full_ - 1:
                continue        # not a reachable counter: the insert site never lets the count exceed the family
            if role == "insert":
                want = b + 2 > full_
                got = {end == "ret:%d" % E_DUPLICATE_INPUT for end, ev in paths if end != "ret:1"}
                if got != {want}:
                    bad.append("%d children seen%s: %s" % (b + 1, " of a pentagon" if p else "", "a further child is accepted" if want else "a further child is rejected as duplicate" if got == {True} else "undetermined"))
                if not want:
                    cnts = {c_ for end, ev in paths if end == "next" for k, c_, _id in ev if k == "local" and c_ is not None}
                    if cnts and cnts != {b + 1}:
                        bad.append("%d children seen: the counter written back is %s, not %d" % (b + 1, sorted(cnts), b + 1))
            else:
                want = b + 1 == full_
                got = {any(k == "work" for k, c_, _id in ev) for end, ev in paths if end == "next"}
                if got != {want}:
                    bad.append("%d children seen%s: %s" % (b + 1, " of a pentagon" if p else "", "not collected although the family is complete" if want else "collected as complete" if got == {True} else "undetermined"))
                if p and want:
                    cnts = {c_ for end, ev in paths if end == "next" for k, c_, _id in ev if k == "same" and c_ is not None}
                    if cnts != {6}:
                        bad.append("a complete pentagon is written back with counter %s (the lookup recognises 6)" % (sorted(cnts) or "unchanged"))
        if bad:
            ctx.violation(RULE, "%s:%s" % (role, FN), "%s: the %s site that reads the child counter at %s disagrees with the family size (7 children, 6 for a pentagon): %s"
                          % (FN, role, L.where(), "; ".join(bad[:3])), L.where(), inst)
        else:
            ctx.ok(RULE, inst, "for all 8 counter values and both answers of isPentagon(parent): %s" %
                   ("E_DUPLICATE_INPUT exactly when one more child exceeds the family, else the counter is advanced by one" if role == "insert"
                    else "collected exactly when the family is complete; a complete pentagon is marked with counter 6"))
        return role
    # lookup: needs the probed entry to be the cell's parent
    inst["role"] = "lookup"
    if len(eqs) != 1:
        raise AnalysisBroken("the lookup site does not compare the probed entry with the parent exactly once (%d comparisons)" % len(eqs))
    bad = []
    for b in range(7):          # 7 is not a reachable counter
        paths = table[(b, None)] if (b, None) in table else _run(m, f, dom, L, fv, b, None, [], extra=extra)
        outs = {any(k == "out" for k, c_, _id in ev) for end, ev in paths if end == "next"}
        if b == 6 and True in outs:
            bad.append("a cell whose parent holds counter 6 (complete family) can still be copied to the output")
        if b != 6 and True not in outs:
            bad.append("a cell whose parent holds counter %d (incomplete family) is dropped" % b)
    if bad:
        ctx.violation(RULE, "lookup:%s" % FN, "%s: the lookup at %s disagrees with the collect site (complete = counter 6): %s" % (FN, L.where(), "; ".join(bad[:3])), L.where(), inst)
    else:
        ctx.ok(RULE, inst, "with the probed entry equal to the parent: counter 6 => the cell is not copied to the output, any other counter => it can be")
    return "lookup"


def _bulk(ctx, m, f, cfg):
    sites = []
    for i in f.all_insts():
        if i.op == "call" and (i.callee or "").startswith("llvm.memcpy"):
            d, s_ = _roots(f, i.ops[0]), _roots(f, i.ops[1])
            if any(x[0] == "a" for x in d) and any(x[0] == "alloc" for x in s_):
                sites.append(i)
    if not sites:
        return 0
    hits = {}

    class P:
        def on_inst(self, ex, st, i):
            if i in sites:
                ln = i.ops[2]
                cnt = None
                if ln[0] == "i":
                    d = f.insts[ln[1]]
                    if d.op == "shl" and d.ops[1][0] == "c" and d.ops[1][1] == 3:
                        cnt = d.ops[0]
                    elif d.op == "mul" and d.ops[1][0] == "c" and d.ops[1][1] == 8:
                        cnt = d.ops[0]
                if cnt is None:
                    hits.setdefault(i.id, []).append(None)
                else:
                    av = ex.eval(cnt, st.env)
                    hits.setdefault(i.id, []).append(explore.to_signed_ivs(av)[-1][1] if av is not None and av[0] == "int" and not explore.is_empty(av) else None)
            return None
    Explorer(f, plugin=P()).run()
    n = 0
    for i in sites:
        n += 1
        inst = {"function": FN, "bulk_copy": i.where(), "config": cfg}
        hs = hits.get(i.id)
        if not hs:
            raise AnalysisBroken("the copy at %s is not reached by the exploration" % i.where())
        if any(h is None or h >= (1 << 40) for h in hs):
            raise AnalysisBroken("no bound on the number of cells copied to the output at %s can be derived from the conditions on the path" % i.where())
        mx = max(hs)
        if mx >= 6:
            ctx.violation(RULE, "bulk:%s" % FN, "%s copies up to %d cells from a work list straight to the output at %s without a compaction round: six cells can be the complete "
                          "family of a pentagon (the result must contain no complete set of siblings)" % (FN, mx, i.where()), i.where(), inst)
        else:
            ctx.ok(RULE, inst, "at most %d cells are copied without classification: fewer than the smallest family (6)" % mx)
    return n
