"""R-FOLD: a length / area is the SUM of one term per consecutive pair of boundary vertices (C10 edge length, C08 cell area).

  edgeLengthRads : sum over i = 0 .. numVerts-2 of greatCircleDistanceRads(verts[i], verts[i+1])        (open polyline)
  cellAreaRads2  : sum over i = 0 .. numVerts-1 of triangleArea(verts[i], verts[(i+1) % numVerts], c)  (closed ring)

The rule reads the shape of the accumulation from the IR (no value is computed):
  F1 the term is evaluated in a loop whose counter starts at 0 and advances by 1;
  F2 its two vertex arguments are verts[i] and verts[i+1] (open) / verts[(i+1) % numVerts] (closed) of the SAME local boundary;
  F3 the loop continues exactly while i < numVerts-1 (open) / i < numVerts (closed), numVerts being that boundary's count;
  F4 every term is ADDED to an accumulator that starts at 0.0 and is what is finally stored through the output parameter.
A term that is evaluated outside any loop is compared pair-wise: its vertex subscripts are evaluated for a 3-vertex boundary and must
give exactly the pairs {(0,1),(1,2)} / {(0,1),(1,2),(2,0)}; otherwise the middle vertex of an edge that crosses an icosahedron edge
(or a side of the cell) is ignored: a definite violation.  Shapes the rule cannot read are ANALYSIS-BROKEN."""
from . import ir
from .build import AnalysisBroken

RULE = "R-FOLD"
INSTANCES = [
    ("edgeLengthRads", "greatCircleDistanceRads", "length", False, "C10"),
    ("cellAreaRads2", "triangleArea", "out", True, "C08"),
]


def _strip(f, o):
    while o[0] == "i" and f.insts[o[1]].op in ("sext", "zext", "trunc", "freeze"):
        o = f.insts[o[1]].ops[0]
    return o


def _in_cycle(f, b):
    seen, todo = set(), list(f.blocks[b].succs())
    while todo:
        x = todo.pop()
        if x == b:
            return True
        if x in seen:
            continue
        seen.add(x)
        todo += f.blocks[x].succs()
    return False


def check(ctx, m, cfg, props=None):
    n = 0
    for fname, term, outp, closed, pid in INSTANCES:
        if props is not None and pid not in props:
            continue
        n += 1
        try:
            _one(ctx, m, cfg, fname, term, outp, closed)
        except AnalysisBroken as e:
            ctx.broken(RULE, "%s: %s" % (fname, e))
    return n


def _vert_index(m, f, o, cb):
    """subscript operand X if o is &cb.verts[X]"""
    if o[0] != "i":
        return None
    g = f.insts[o[1]]
    if g.op != "getelementptr":
        return None
    base, path = ir.field_path(m, f, o)
    if base != ("i", cb.id) or len(path) != 2 or path[0][:3] != ("f", "CellBoundary", "verts") or path[1][0] != "x":
        return None
    return _strip(f, g.ops[-1])


def _is_numverts(m, f, o, cb):
    o = _strip(f, o)
    if o[0] != "i" or f.insts[o[1]].op != "load":
        return False
    base, path = ir.field_path(m, f, f.insts[o[1]].ops[0])
    return base == ("i", cb.id) and tuple(path) == (("f", "CellBoundary", "numVerts"),)


def _eval_index(m, f, o, cb, N, iv=None, ival=None):
    """value of a subscript expression for numVerts = N (and counter = ival), None if not of a readable form"""
    o = _strip(f, o)
    if o[0] == "c":
        return ir.cint_signed(o)
    if iv is not None and o == iv:
        return ival
    if _is_numverts(m, f, o, cb):
        return N
    if o[0] == "i":
        i = f.insts[o[1]]
        if i.op == "select":
            c = f.insts[i.ops[0][1]] if i.ops[0][0] == "i" else None
            if c is not None and c.op == "icmp":
                a = _eval_index(m, f, c.ops[0], cb, N, iv, ival)
                b = _eval_index(m, f, c.ops[1], cb, N, iv, ival)
                if a is None or b is None:
                    return None
                tr = {"eq": a == b, "ne": a != b, "slt": a < b, "sle": a <= b, "sgt": a > b, "sge": a >= b,
                      "ult": 0 <= a < b, "ule": 0 <= a <= b, "ugt": a > b >= 0, "uge": a >= b >= 0}.get(c.pred)
                if tr is None:
                    return None
                return _eval_index(m, f, i.ops[1] if tr else i.ops[2], cb, N, iv, ival)
            return None
        if i.op in ("add", "sub", "srem", "urem") and len(i.ops) == 2:
            a = _eval_index(m, f, i.ops[0], cb, N, iv, ival)
            b = _eval_index(m, f, i.ops[1], cb, N, iv, ival)
            if a is None or b is None:
                return None
            if i.op == "add": return a + b
            if i.op == "sub": return a - b
            if b == 0: return None
            return a % b if a >= 0 and b > 0 else None
    return None


def _one(ctx, m, cfg, fname, term, outp, closed):
    f = m.fn(fname)
    ok_ = f.arg_index(outp)
    if ok_ is None:
        raise AnalysisBroken("parameter %s not found" % outp)
    inst = {"function": fname, "term": term, "closed_ring": closed, "config": cfg}
    cbs = [i for i in f.all_insts() if i.op == "alloca" and "CellBoundary" in (i.d.get("aty") or "")]
    if len(cbs) != 1:
        raise AnalysisBroken("expected one local CellBoundary, found %d" % len(cbs))
    cb = cbs[0]
    calls = [i for i in f.all_insts() if i.op == "call" and i.callee == term]
    if not calls:
        raise AnalysisBroken("no call of %s" % term)
    want3 = {(0, 1), (1, 2), (2, 0)} if closed else {(0, 1), (1, 2)}
    what = "every side of the cell's boundary ring" if closed else "every segment of the edge's boundary polyline"
    # --- calls outside a loop: compare the pair set for a 3-vertex boundary
    from .rules_argmin import _loop_blocks
    loop_calls = []
    fixed_pairs = set()
    for c in calls:
        xa, xb = _vert_index(m, f, c.ops[0], cb), _vert_index(m, f, c.ops[1], cb)
        if xa is None or xb is None:
            raise AnalysisBroken("%s is not applied to two vertices of the local boundary at %s" % (term, c.where()))
        in_loop = _in_cycle(f, c.block.idx)
        if in_loop:
            loop_calls.append((c, xa, xb))
        else:
            pa, pb = _eval_index(m, f, xa, cb, 3), _eval_index(m, f, xb, cb, 3)
            if pa is None or pb is None:
                raise AnalysisBroken("vertex subscripts of %s at %s are not readable" % (term, c.where()))
            fixed_pairs.add((pa, pb))
    if not loop_calls:
        if fixed_pairs != want3 and {(b, a) for a, b in fixed_pairs} != want3:
            ctx.violation(RULE, "%s:pairs" % fname, "%s evaluates %s only for the vertex pairs %s of a 3-vertex boundary; the documented value sums it over %s, i.e. the pairs %s "
                          "(a boundary that crosses an icosahedron edge has an intermediate vertex)" % (fname, term, sorted(fixed_pairs), what, sorted(want3)), calls[0].where(), inst)
            return
        raise AnalysisBroken("terms are evaluated without a loop; only the 3-vertex case could be compared")
    if len(loop_calls) != 1 or fixed_pairs:
        raise AnalysisBroken("expected exactly one %s call, inside the loop" % term)
    c, xa, xb = loop_calls[0]
    # F1 counter
    iv = xa
    if iv[0] != "i" or f.insts[iv[1]].op != "phi":
        raise AnalysisBroken("first vertex subscript is not the loop counter")
    phi = f.insts[iv[1]]
    loop = _loop_blocks(f, phi.block.idx)
    start = step = None
    for o, inc in zip(phi.ops, phi.d["inc"]):
        s = _strip(f, o)
        if inc in loop:
            if s[0] == "i" and f.insts[s[1]].op == "add" and _strip(f, f.insts[s[1]].ops[0]) == iv and f.insts[s[1]].ops[1][0] == "c":
                step = f.insts[s[1]].ops[1][1]
        elif o[0] == "c":
            start = o[1]
    if start is None or step is None:
        raise AnalysisBroken("loop counter is not `i = c0; i += c1`")
    # F2/F3 by evaluating subscripts and the bound for small boundaries
    t = phi.block.term
    cond = f.insts[t.ops[0][1]] if t.op == "br" and len(t.ops) == 3 and t.ops[0][0] == "i" else None
    if cond is None or cond.op != "icmp":
        raise AnalysisBroken("loop test is not an integer comparison")
    stay_true = t.succs()[0] in loop
    for N in range(2, 11):
        if _eval_index(m, f, cond.ops[0], cb, N, iv, 0) is None or _eval_index(m, f, cond.ops[1], cb, N, iv, 0) is None:
            raise AnalysisBroken("loop test is not a comparison of expressions of the counter and numVerts")
        pairs = set()
        i = start
        guard = 0
        while guard < 64:
            guard += 1
            lhs = _eval_index(m, f, cond.ops[0], cb, N, iv, i)
            bound = _eval_index(m, f, cond.ops[1], cb, N, iv, i)
            if lhs is None or bound is None or ((lhs < 0 or bound < 0) and cond.pred.startswith("u")):
                raise AnalysisBroken("loop test not evaluable")
            tr = {"slt": lhs < bound, "sle": lhs <= bound, "ult": lhs < bound, "ule": lhs <= bound, "ne": lhs != bound,
                  "sgt": lhs > bound, "sge": lhs >= bound, "ugt": lhs > bound, "uge": lhs >= bound, "eq": lhs == bound}.get(cond.pred)
            if tr is None:
                raise AnalysisBroken("loop predicate %s" % cond.pred)
            if tr != stay_true:
                break
            pa = _eval_index(m, f, xa, cb, N, iv, i)
            pb = _eval_index(m, f, xb, cb, N, iv, i)
            if pa is None or pb is None:
                raise AnalysisBroken("vertex subscripts are not expressions of the counter and numVerts")
            pairs.add((pa, pb))
            i += step
        want = {(k, (k + 1) % N) for k in range(N)} if closed else {(k, k + 1) for k in range(N - 1)}
        if pairs != want:
            miss = sorted(want - pairs)
            extra = sorted(pairs - want)
            ctx.violation(RULE, "%s:pairs" % fname, "for a boundary of %d vertices %s sums %s over the pairs %s; the documented value covers %s: missing %s, unexpected %s"
                          % (N, fname, term, sorted(pairs), what, miss, extra), c.where(), dict(inst, numVerts=N))
            return
    # F4 accumulation
    users = f.users(("i", c.id))
    adds = [u for u in users if u.op == "fadd"]
    if len(adds) != 1 or len(users) != 1:
        ctx.violation(RULE, "%s:accumulate" % fname, "the value of %s is not added to the running sum in %s (each term must contribute once)" % (term, fname), c.where(), inst)
        return
    add = adds[0]
    other = add.ops[0] if add.ops[1] == ["i", c.id] else add.ops[1]
    good = False
    if other[0] == "i" and f.insts[other[1]].op == "phi":
        acc = f.insts[other[1]]
        feeds = list(zip(acc.ops, acc.d["inc"]))
        init = [o for o, inc in feeds if inc not in loop]
        back = [o for o, inc in feeds if inc in loop]
        if len(init) == 1 and init[0][0] == "f" and float(init[0][1]) == 0.0 and back == [["i", add.id]]:
            st = [i for i in f.all_insts() if i.op == "store" and ir.field_path(m, f, i.ops[1]) == (("a", ok_), ())]
            good = len(st) == 1 and st[0].ops[0] == ["i", acc.id] and st[0].block.idx not in loop
    elif other[0] == "i" and f.insts[other[1]].op == "load" and ir.field_path(m, f, f.insts[other[1]].ops[0]) == (("a", ok_), ()):
        st = [i for i in f.all_insts() if i.op == "store" and ir.field_path(m, f, i.ops[1]) == (("a", ok_), ())]
        inl = [i for i in st if i.block.idx in loop]
        pre = [i for i in st if i.block.idx not in loop]
        good = (len(inl) == 1 and inl[0].ops[0] == ["i", add.id] and len(pre) == 1 and pre[0].ops[0][0] == "f" and float(pre[0].ops[0][1]) == 0.0)
    if not good:
        raise AnalysisBroken("the accumulation into *%s is not `acc = 0.0; acc += term` in a form the rule reads" % outp)
    ctx.ok(RULE, inst, "%s is added once per pair (i, %s) for i = 0..%s into an accumulator that starts at 0.0 and is stored to *%s (pair sets compared for numVerts = 2..10)"
           % (term, "(i+1) % numVerts" if closed else "i+1", "numVerts-1" if closed else "numVerts-2", outp))
