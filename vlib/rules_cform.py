"""R-CFORM: documented closed forms (DESIGN.md 2.4).  The value a function stores is evaluated exactly, as an
expression DAG over opaque leaves, for the whole finite domain of those leaves, and compared with the documented formula."""
import struct
from . import ir, ceval, rules_tab
from .build import AnalysisBroken

I64 = (1 << 64) - 1


def _ipow(argv, mem):
    b, e = ceval._sg(argv[0], 64), ceval._sg(argv[1], 64)
    if e < 0:
        raise AnalysisBroken("_ipow called with a negative exponent on the evaluated domain")
    return pow(b, e) & I64


def _out_key(f, name):
    k = f.arg_index(name)
    if k is None:
        raise AnalysisBroken("%s: parameter %s not found" % (f.name, name))
    return (("a", k), ())


def _sg64(v):
    return ceval._sg(v, 64)


def check(ctx, m, cfg, props_sel, rule="R-CFORM", funcs=None):
    insts = [
        ("getNumCells", ["C03"], _getNumCells), ("cellToChildrenSize", ["C04", "C13", "C06"], _cellToChildrenSize),
        ("gridPathCellsSize", ["C14"], _gridPathCellsSize), ("maxFaceCount", ["C19"], _maxFaceCount),
        ("maxGridDiskSize", ["C05", "C12"], _maxGridDiskSize), ("validateChildPos", ["C13", "C01"], _validateChildPos),
        ("child-count arithmetic stays 64-bit", ["C13", "C04", "C03", "C12", "C01"], _narrow), ("cellArea units", ["C08"], _areaUnits), ("edgeLength units", ["C10"], _edgeUnits),
    ]
    n = 0
    for name, props, fn in insts:
        if props_sel is not None and not (set(props) & set(props_sel)) and not (funcs and name in funcs):
            continue
        n += 1
        try:
            res = fn(m)
        except AnalysisBroken as e:
            ctx.broken(rule, "%s: %s" % (name, e))
            continue
        inst = {"instance": name, "config": cfg, "points_evaluated": res.get("n", 0)}
        if res.get("bad"):
            key, msg, where = res["bad"]
            ctx.violation(rule, key, msg, where, inst)
        else:
            ctx.ok(rule, inst, res["ok"])
    return n


def _getNumCells(m):
    f = m.fn("getNumCells")
    ok_ = _out_key(f, "out")
    n = 0
    for res in range(16):
        e = ceval.Eval(m, f, {f.arg_index("res"): res, ok_[0][1]: ("ptr", "out")}, {"_ipow": _ipow})
        e.args = [res if k == f.arg_index("res") else ("ptr", "out") for k in range(len(f.args))]
        r = e.run()
        n += 1
        got = e.mem.get(ok_)
        exp = 2 + 120 * 7 ** res
        if r != 0 or got is None or _sg64(got) != exp:
            return {"bad": ("getNumCells:res%d" % res, "getNumCells(res=%d) stores %s (returns %s); the grid has 2 + 120*7^%d = %d cells" % (res, None if got is None else _sg64(got), r, res, exp), f.where())}
    # agreement with the counted structure: 110 hexagon + 12 pentagon base cells
    T = rules_tab.tables.Tables(m)
    bcd = T.get("baseCellData")
    npent = len([1 for r_ in bcd if r_[1]])
    nhex = len(bcd) - npent
    for res in range(16):
        if nhex * 7 ** res + npent * (1 + 5 * (7 ** res - 1) // 6) != 2 + 120 * 7 ** res:
            return {"bad": ("getNumCells:structure", "2+120*7^r does not equal %d hexagon trees + %d pentagon trees at res %d" % (nhex, npent, res), f.where())}
    return {"n": n, "ok": "for res = 0..15 the stored expression evaluates to 2 + 120*7^res (int64), which is %d*7^r + %d*(1+5(7^r-1)/6) for the table's %d hexagon and %d pentagon base cells" % (nhex, npent, nhex, npent)}


def _cellToChildrenSize(m):
    f = m.fn("cellToChildrenSize")
    hk, ck = f.arg_index("h"), f.arg_index("childRes")
    ok_ = _out_key(f, "out")
    n = 0
    for hres in range(16):
        for cres in range(hres, 16):
            for pent in (0, 1):
                h = (hres << 52) | (1 << 59)
                models = {"_ipow": _ipow, "isPentagon": lambda a, mem, p=pent: p, "_hasChildAtRes": lambda a, mem: 1}
                e = ceval.Eval(m, f, None, models)
                e.args = [h if k == hk else cres if k == ck else ("ptr", "out") for k in range(len(f.args))]
                r = e.run()
                n += 1
                got = e.mem.get(ok_)
                d = cres - hres
                exp = 1 + 5 * (7 ** d - 1) // 6 if pent else 7 ** d
                if r != 0 or got is None or _sg64(got) != exp:
                    return {"bad": ("cellToChildrenSize:%s:n%d" % ("pent" if pent else "hex", d),
                                    "cellToChildrenSize(%s of res %d, childRes %d) stores %s; documented %s = %d"
                                    % ("pentagon" if pent else "hexagon", hres, cres, None if got is None else _sg64(got), "1+5(7^n-1)/6" if pent else "7^n", exp), f.where())}
    return {"n": n, "ok": "all 136 (res(h), childRes) pairs x {hexagon, pentagon}: stored value = 7^n resp. 1+5(7^n-1)/6 with n = childRes - res(h)"}


def _gridPathCellsSize(m):
    f = m.fn("gridPathCellsSize")
    ok_ = _out_key(f, "size")
    n = 0
    for D in (0, 1, 2, 17, 10 ** 6, 2 ** 40):
        def gd(argv, mem, D=D):
            mem[argv[2]] = D
            return 0
        e = ceval.Eval(m, f, None, {"gridDistance": gd})
        e.args = [1, 2, ("ptr", "size")]
        r = e.run()
        n += 1
        got = e.mem.get(ok_)
        if r != 0 or got is None or _sg64(got) != D + 1:
            return {"bad": ("gridPathCellsSize", "gridPathCellsSize stores %s for gridDistance = %d; documented size is distance + 1" % (None if got is None else _sg64(got), D), f.where())}
    # failure of gridDistance is passed on and nothing is stored
    e = ceval.Eval(m, f, None, {"gridDistance": lambda a, mem: 12})
    e.args = [1, 2, ("ptr", "size")]
    r = e.run()
    if r != 12 or ok_ in e.mem:
        return {"bad": ("gridPathCellsSize:error", "gridPathCellsSize does not pass on gridDistance's error unchanged without a result (returns %s)" % r, f.where())}
    return {"n": n + 1, "ok": "size = gridDistance + 1 at 6 sample distances (affine expression add(load, 1)); a gridDistance error is returned unchanged with nothing stored"}


def _maxFaceCount(m):
    f = m.fn("maxFaceCount")
    ok_ = _out_key(f, "out")
    for pent, exp in ((0, 2), (1, 5), (7, 5)):
        e = ceval.Eval(m, f, None, {"isPentagon": lambda a, mem, p=pent: p})
        e.args = [0, ("ptr", "out")]
        r = e.run()
        got = e.mem.get(ok_)
        if r != 0 or got != exp:
            return {"bad": ("maxFaceCount", "maxFaceCount stores %s for isPentagon = %d; documented: 5 for a pentagon, 2 for a hexagon" % (got, pent), f.where())}
    return {"n": 3, "ok": "maxFaceCount = 5 if isPentagon else 2"}


def _maxGridDiskSize(m):
    f = m.fn("maxGridDiskSize")
    ok_ = _out_key(f, "out")
    total = 2 + 120 * 7 ** 15

    def ev(k):
        used = []

        def gnc(argv, mem):
            used.append(argv[0])
            mem[argv[1]] = 2 + 120 * 7 ** ceval._sg(argv[0], 32)
            return 0
        e = ceval.Eval(m, f, None, {"getNumCells": gnc})
        e.args = [k, ("ptr", "out")]
        r = e.run()
        got = e.mem.get(ok_)
        return r, (None if got is None else _sg64(got)), used
    # the code's own cut-over point (first k answered through getNumCells), found by bisection on the evaluated branch
    lo, hi = 0, (1 << 31) - 1
    if not ev(hi)[2]:
        cut = None
    else:
        while lo < hi:
            mid = (lo + hi) // 2
            if ev(mid)[2]:
                hi = mid
            else:
                lo = mid + 1
        cut = lo
    n = 0
    ks = list(range(0, 200)) + [1000, 46340, 46341, 10 ** 6, 13780509, 13780510, 13780511, 10 ** 9, 1753413056, 1753413057, 2 ** 31 - 1]
    if cut is not None:
        ks += [cut - 1, cut, cut + 1]
    for k in ks:
        if k < 0 or k > 2 ** 31 - 1:
            continue
        r, got, used = ev(k)
        n += 1
        disk = 3 * k * (k + 1) + 1
        if r != 0 or got is None:
            return {"bad": ("maxGridDiskSize:k%d" % k, "maxGridDiskSize(k=%d) does not store a size (returns %s)" % (k, r), f.where())}
        if used:
            if got < total or used[0] != 15:
                return {"bad": ("maxGridDiskSize:whole-grid", "maxGridDiskSize(k=%d) substitutes %d, fewer than the %d cells of the finest resolution" % (k, got, total), f.where())}
        elif got != disk:
            return {"bad": ("maxGridDiskSize:k%d" % k, "maxGridDiskSize(k=%d) stores %d; documented 3k(k+1)+1 = %d (int64 overflow or wrong formula)" % (k, got, disk), f.where())}
    return {"n": n, "ok": "3k(k+1)+1 exactly (no int64 wrap) for every k answered by the formula up to the code's cut-over %s, the res-15 cell count %d from there on; k=1 gives 7 (the local ring buffers)" % (cut, total)}


def _unit_chain(m, fname, callee, outname, factor, what):
    f = m.fn(fname)
    ok_ = _out_key(f, outname)
    n = 0
    for x in (1.0, 0.5, 3.25e-9, 12.566370614359172):
        def inner(argv, mem, x=x):
            mem[argv[1]] = x
            return 0
        e = ceval.Eval(m, f, None, {callee: inner})
        e.args = [0, ("ptr", outname)]
        r = e.run()
        n += 1
        got = e.mem.get(ok_)
        exp = x * factor
        if r != 0 or got is None or abs(got - exp) > 1e-12 * abs(exp):
            return None, {"bad": ("%s:scale" % fname, "%s stores %r for %s = %r; documented scale factor is %r (expected %r)" % (fname, got, callee, x, factor, exp), f.where())}
    # an error of the inner function is passed on
    e = ceval.Eval(m, f, None, {callee: lambda a, mem: (mem.__setitem__(a[1], 0.0), 5)[1]})
    e.args = [0, ("ptr", outname)]
    r = e.run()
    if r != 5:
        return None, {"bad": ("%s:error" % fname, "%s does not pass on the error of %s" % (fname, callee), f.where())}
    return n + 1, None


def _areaUnits(m):
    floats, ints = rules_tab.macro_values("release")
    R = floats.get("EARTH_RADIUS_KM")
    if R is None:
        raise AnalysisBroken("EARTH_RADIUS_KM not found")
    n1, bad = _unit_chain(m, "cellAreaKm2", "cellAreaRads2", "out", R * R, "km2")
    if bad:
        return bad
    n2, bad = _unit_chain(m, "cellAreaM2", "cellAreaKm2", "out", 1e6, "m2")
    if bad:
        return bad
    return {"n": n1 + n2, "ok": "cellAreaKm2 = cellAreaRads2 * EARTH_RADIUS_KM^2 (%.9f^2), cellAreaM2 = cellAreaKm2 * 10^6; inner errors passed on" % R}


def _edgeUnits(m):
    floats, ints = rules_tab.macro_values("release")
    R = floats.get("EARTH_RADIUS_KM")
    if R is None:
        raise AnalysisBroken("EARTH_RADIUS_KM not found")
    n1, bad = _unit_chain(m, "edgeLengthKm", "edgeLengthRads", "length", R, "km")
    if bad:
        return bad
    n2, bad = _unit_chain(m, "edgeLengthM", "edgeLengthKm", "length", 1e3, "m")
    if bad:
        return bad
    return {"n": n1 + n2, "ok": "edgeLengthKm = edgeLengthRads * EARTH_RADIUS_KM, edgeLengthM = edgeLengthKm * 10^3; inner errors passed on"}


def _count(pent, n):
    return 1 + 5 * (7 ** n - 1) // 6 if pent else 7 ** n


def _validateChildPos(m):
    """the position guard, evaluated as an expression DAG over (res(parent), childRes, pentagon?, position)"""
    f = m.fn("validateChildPos")
    pk, hk, ck = f.arg_index("childPos"), f.arg_index("parent"), f.arg_index("childRes")
    if None in (pk, hk, ck):
        raise AnalysisBroken("validateChildPos: parameters childPos/parent/childRes not found")
    n = 0
    for pres in range(16):
        for cres in range(pres, 16):
            for pent in (0, 1):
                d = cres - pres
                cnt = _count(pent, d)

                def cts(argv, mem, cnt=cnt):
                    mem[argv[2]] = cnt
                    return 0
                models = {"cellToChildrenSize": cts, "isPentagon": lambda a, mem, p=pent: p, "_ipow": _ipow,
                          "_hasChildAtRes": lambda a, mem: int(((a[0] >> 52) & 15) <= ceval._sg(a[1], 32) <= 15)}
                for pos in sorted({-1, 0, cnt - 1, cnt, cnt + 1, 7 ** d - 1, 7 ** d, -2 ** 63}):
                    e = ceval.Eval(m, f, None, models)
                    h = (pres << 52) | (1 << 59)
                    e.args = [pos & I64 if k == pk else h if k == hk else cres for k in range(len(f.args))]
                    r = e.run()
                    n += 1
                    exp = 0 if 0 <= pos < cnt else 2
                    if r != exp:
                        return {"bad": ("validateChildPos:%s:n%d" % ("pent" if pent else "hex", d),
                                        "validateChildPos(childPos=%d, %s parent of res %d, childRes=%d) returns %d; the parent has %d children, so the documented answer is %s"
                                        % (pos, "pentagon" if pent else "hexagon", pres, cres, r, cnt, "E_SUCCESS" if exp == 0 else "E_DOMAIN"), f.where())}
    return {"n": n, "ok": "for all 136 resolution pairs x {hexagon, pentagon} and the boundary positions (-1, 0, count-1, count, 7^n-1, 7^n): E_DOMAIN exactly outside [0, cellToChildrenSize)"}


_ARITH = ("add", "sub", "mul", "phi", "select", "sext", "zext", "or", "shl", "freeze")


def _ipow_slices(m):
    """for every _ipow(7, e) call: the values computed from its result by integer arithmetic"""
    out = []
    for f in m.defined():
        for i in f.all_insts():
            if i.op == "call" and i.callee == "_ipow":
                seen, work, truncs = set(), [("i", i.id)], []
                while work:
                    k = work.pop()
                    if k in seen:
                        continue
                    seen.add(k)
                    for u in f.users(k):
                        if u.op in _ARITH:
                            work.append(("i", u.id))
                        elif u.op in ("sdiv", "udiv") and u.ops[0][0] == "i" and ("i", u.ops[0][1]) == k and u.ops[1][0] == "c":
                            work.append(("i", u.id))
                        elif u.op == "trunc" and int(u.type[1:]) < 64:
                            truncs.append(u)
                        if u.op == "shl" and u.ops[1][0] == "c" and u.ops[0][0] == "i" and ("i", u.ops[0][1]) == k:
                            # instcombine's form of (int64_t)(int32_t)x : shl k ; ashr k  (sign extension from 64-k bits = truncation)
                            for v in f.users(("i", u.id)):
                                if v.op in ("ashr", "lshr") and v.ops[1][0] == "c" and v.ops[1][1] == u.ops[1][1] and v.ops[0] == ["i", u.id] and u.ops[1][1] > 0:
                                    truncs.append(v)
                out.append((f, i, seen, truncs))
    return out


def _narrow(m):
    sl = _ipow_slices(m)
    if len(sl) < 5:
        raise AnalysisBroken("fewer than 5 _ipow call sites found (%d)" % len(sl))
    for f, call, seen, truncs in sl:
        if call.ops[0][0] != "c" or call.ops[0][1] != 7:
            return {"bad": ("ipow-base:%s" % f.name, "%s calls _ipow with a base other than 7 (aperture-7 child counts are powers of 7)" % f.name, call.where())}
        if truncs:
            t = truncs[0]
            return {"bad": ("narrow:%s" % f.name,
                            "%s truncates a value computed from _ipow(7, n) (%s) at %s; child counts reach 7^15 = 4.7e12 and do not fit (wrong positions for resolution differences >= 12)"
                            % (f.name, ("to " + t.type) if t.op == "trunc" else "to %d bits by a shift pair" % (64 - t.ops[1][1]), t.where()), t.where())}
    return {"n": len(sl), "ok": "%d _ipow(7, n) call sites: no value computed from the result is truncated below 64 bits" % len(sl)}
