"""R-DRAIN: the loops that drain a child iterator into an output array (cellToChildren, uncompactCells) store every element
exactly once, in iteration order, at consecutive positions (C04, C06).  Together with R-BITPROV iter-init / iter-step (the iterator
starts at the smallest child and each step yields the next one) this gives, by induction over the iteration, that the output is the
documented child set in increasing index order.

Shape that is required (anything else the rule cannot read is ANALYSIS-BROKEN, never a violation):
  * one local IterCellsChildren A, filled from iterInitParent(X, R) (or _iterInitParent(X, R, &A));
  * a loop whose header loads A.h and leaves when it is 0;
  * exactly one store through the output parameter inside the loop: the stored value is that load, the subscript is a counter
    that starts at 0 (outside all loops) and is incremented by exactly 1 once per stored element;
  * exactly one iterStepChild(&A) per iteration, after the store;
  * R is the function's resolution parameter; X is the cell parameter, or element j of the input array with j = 0, 1, .. < count.
Definite violations: counter step other than 1 / start other than 0, the stored value is not the element just tested, the step
precedes the store, the resolution passed is not the parameter."""
from . import ir
from .build import AnalysisBroken

RULE = "R-DRAIN"
INSTANCES = [
    # function, output parameter, resolution parameter, cell source: ("param", name) | ("array", array param, count param)
    ("cellToChildren", "children", "childRes", ("param", "h")),
    ("uncompactCells", "outSet", "res", ("array", "compactedSet", "numCompacted")),
]


def _strip(f, o):
    while o[0] == "i" and f.insts[o[1]].op in ("sext", "zext", "trunc", "freeze", "bitcast"):
        o = f.insts[o[1]].ops[0]
    return o


def _web(f, k):
    web, todo = set(), [k]
    while todo:
        x = todo.pop()
        if x in web:
            continue
        web.add(x)
        for o in f.insts[x].ops:
            o = _strip(f, o)
            if o[0] == "i" and f.insts[o[1]].op == "phi":
                todo.append(o[1])
        for u in f.users(("i", x)):
            if u.op == "phi":
                todo.append(u.id)
    return web


def _reach(f, a, b, avoid=None):
    """block b reachable from block a (not passing through `avoid`)"""
    seen, todo = set(), [a]
    while todo:
        x = todo.pop()
        if x == b:
            return True
        if x in seen or x == avoid:
            continue
        seen.add(x)
        todo += f.blocks[x].succs()
    return False


def check(ctx, m, cfg, only=None):
    n = 0
    for fname, outp, resp, src in INSTANCES:
        if only is not None and fname not in only:
            continue
        n += 1
        try:
            _one(ctx, m, cfg, fname, outp, resp, src)
        except AnalysisBroken as e:
            ctx.broken(RULE, "%s: %s" % (fname, e))
    return n


def _one(ctx, m, cfg, fname, outp, resp, src):
    f = m.fn(fname)
    ok_, rk = f.arg_index(outp), f.arg_index(resp)
    if ok_ is None or rk is None:
        raise AnalysisBroken("parameters %s/%s not found" % (outp, resp))
    inst = {"function": fname, "config": cfg}
    allocas = [i for i in f.all_insts() if i.op == "alloca" and "IterCellsChildren" in (i.d.get("aty") or i.type)]
    if len(allocas) != 1:
        raise AnalysisBroken("expected one local IterCellsChildren, found %d" % len(allocas))
    A = allocas[0]

    def is_field(o, path):
        base, pth = ir.field_path(m, f, o)
        return base == ("i", A.id) and tuple(pth) == tuple(path)
    steps = [i for i in f.all_insts() if i.op == "call" and i.callee == "iterStepChild"]
    inits = [i for i in f.all_insts() if i.op == "call" and i.callee in ("iterInitParent", "_iterInitParent")]
    if len(steps) != 1 or len(inits) != 1:
        raise AnalysisBroken("expected one iterStepChild and one iterInitParent call, found %d and %d" % (len(steps), len(inits)))
    step, init = steps[0], inits[0]
    if not is_field(step.ops[0], ()):
        raise AnalysisBroken("iterStepChild is not applied to the local iterator")
    # resolution argument
    if _strip(f, init.ops[1]) != ["a", rk]:
        ctx.violation(RULE, "%s:resolution" % fname, "%s starts the child iteration at a resolution that is not its parameter %s" % (fname, resp), init.where(), inst)
        return
    # the store through the output parameter
    stores = [i for i in f.all_insts() if i.op == "store" and ir.field_path(m, f, i.ops[1])[0] == ("a", ok_)]
    if len(stores) != 1:
        raise AnalysisBroken("expected one store through %s, found %d" % (outp, len(stores)))
    st = stores[0]
    v = _strip(f, st.ops[0])
    ld = f.insts[v[1]] if v[0] == "i" else None
    if ld is None or ld.op != "load" or not is_field(ld.ops[0], (("f", "IterCellsChildren", "h"),)):
        ctx.violation(RULE, "%s:value" % fname, "%s stores a value other than the iterator's current cell" % fname, st.where(), inst)
        return
    # header test on the same load
    hb = ld.block
    t = hb.term
    cond = f.insts[t.ops[0][1]] if t.op == "br" and len(t.ops) == 3 and t.ops[0][0] == "i" else None
    if cond is None or cond.op != "icmp" or cond.pred not in ("eq", "ne") or _strip(f, cond.ops[0]) != ["i", ld.id] or not (cond.ops[1][0] == "c" and cond.ops[1][1] == 0):
        raise AnalysisBroken("the block that loads iter.h does not branch on it being 0")
    cont = t.succs()[1] if cond.pred == "eq" else t.succs()[0]
    if not _reach(f, cont, st.block.idx) or not _reach(f, st.block.idx, hb.idx):
        raise AnalysisBroken("the store is not inside the loop that tests iter.h")
    # no step between the load and the store; one step between the store and the next test
    if step.block.idx == st.block.idx:
        after = [i.id for i in st.block.insts].index(step.id) > [i.id for i in st.block.insts].index(st.id)
    else:
        after = _reach(f, st.block.idx, step.block.idx, avoid=hb.idx) and not _reach(f, cont, step.block.idx, avoid=st.block.idx)
    if not after:
        ctx.violation(RULE, "%s:order" % fname, "%s advances the iterator before storing the element it tested (an element is skipped or a stale one stored)" % fname, step.where(), inst)
        return
    if not _reach(f, step.block.idx, hb.idx):
        raise AnalysisBroken("iterStepChild is not on the way back to the loop test")
    # the subscript counter
    g = f.insts[st.ops[1][1]] if st.ops[1][0] == "i" else None
    if g is None or g.op != "getelementptr" or len(g.ops) != 2 or g.ops[0] != ["a", ok_]:
        raise AnalysisBroken("the output is not addressed as %s[counter]" % outp)
    cnt = _strip(f, g.ops[1])
    if cnt[0] != "i" or f.insts[cnt[1]].op != "phi":
        raise AnalysisBroken("the output subscript is not a loop-carried counter")
    web = _web(f, cnt[1])
    feeds = []
    for k in web:
        for o in f.insts[k].ops:
            o = _strip(f, o)
            if not (o[0] == "i" and o[1] in web):
                feeds.append(o)
    consts = [o for o in feeds if o[0] == "c"]
    incs = [f.insts[o[1]] for o in feeds if o[0] == "i"]
    if [o for o in consts if o[1] != 0]:
        ctx.violation(RULE, "%s:start" % fname, "%s starts filling %s at position %d" % (fname, outp, consts[0][1]), st.where(), inst)
        return
    if len(incs) != 1 or incs[0].op != "add" or not (_strip(f, incs[0].ops[0])[0] == "i" and _strip(f, incs[0].ops[0])[1] in web) or incs[0].ops[1][0] != "c":
        raise AnalysisBroken("the output counter is not advanced by one constant increment")
    if incs[0].ops[1][1] != 1:
        ctx.violation(RULE, "%s:stride" % fname, "%s advances the output position by %d per stored element" % (fname, incs[0].ops[1][1]), incs[0].where(), inst)
        return
    if incs[0].block.idx != st.block.idx and not (_reach(f, st.block.idx, incs[0].block.idx, avoid=hb.idx)):
        raise AnalysisBroken("the counter increment is not tied to the store")
    if _strip(f, incs[0].ops[0]) != cnt:
        raise AnalysisBroken("the counter increment does not start from the subscript just used")
    # the cell that is expanded
    x = _strip(f, init.ops[0])
    if src[0] == "param":
        if x != ["a", f.arg_index(src[1])]:
            ctx.violation(RULE, "%s:cell" % fname, "%s iterates the children of something other than its parameter %s" % (fname, src[1]), init.where(), inst)
            return
    else:
        ak, ck = f.arg_index(src[1]), f.arg_index(src[2])
        l2 = f.insts[x[1]] if x[0] == "i" else None
        g2 = f.insts[l2.ops[0][1]] if l2 is not None and l2.op == "load" and l2.ops[0][0] == "i" else None
        if g2 is None or g2.op != "getelementptr" or g2.ops[0] != ["a", ak]:
            raise AnalysisBroken("the expanded cell is not an element of %s" % src[1])
        jv = _strip(f, g2.ops[1])
        if jv[0] != "i" or f.insts[jv[1]].op != "phi":
            raise AnalysisBroken("the input subscript is not a loop counter")
        jphi = f.insts[jv[1]]
        starts = [o for o in jphi.ops if o[0] == "c"]
        jin = [f.insts[_strip(f, o)[1]] for o in jphi.ops if _strip(f, o)[0] == "i"]
        if len(starts) != 1 or len(jin) != 1 or jin[0].op != "add" or _strip(f, jin[0].ops[0]) != jv or jin[0].ops[1][0] != "c":
            raise AnalysisBroken("the input counter is not `j = c0; j += c1`")
        if starts[0][1] != 0 or jin[0].ops[1][1] != 1:
            ctx.violation(RULE, "%s:input" % fname, "%s visits the input cells from %d in steps of %d" % (fname, starts[0][1], jin[0].ops[1][1]), jphi.where(), inst)
            return
        # bound: continue while j < count
        tb = jphi.block.term
        c2 = f.insts[tb.ops[0][1]] if tb.op == "br" and len(tb.ops) == 3 and tb.ops[0][0] == "i" else None
        if c2 is None or c2.op != "icmp" or _strip(f, c2.ops[0]) != jv or _strip(f, c2.ops[1]) != ["a", ck]:
            raise AnalysisBroken("the input loop is not bounded by j < %s" % src[2])
        stay_true = _reach(f, tb.succs()[0], st.block.idx, avoid=jphi.block.idx)
        okp = (c2.pred in ("slt", "ult") and stay_true) or (c2.pred in ("sge", "uge") and not stay_true)
        if not okp:
            ctx.violation(RULE, "%s:input-bound" % fname, "%s does not visit exactly the cells 0..%s-1 (loop test %s)" % (fname, src[2], c2.pred), c2.where(), inst)
            return
    ctx.ok(RULE, inst, "%s[k] receives the k-th element of the iteration (stored before the single step, counter 0,1,2,..), starting from iterInitParent(%s, %s)"
           % (outp, "cell" if src[0] == "param" else src[1] + "[j]", resp))
