"""R-BW: bounded writes into caller memory (DESIGN.md 2.4; C06, C14, C15, C19).

Instance = (function, buffer parameter, bound, allowed relation).  Every store through the buffer parameter at a
variable index (and every call that receives &buf[index]) must happen only where the engine's relation facts -
learnt from the branch conditions on the SAME SSA values, carried through phi copies, or implied by ranges -
give  index < bound  (or <= bound where the documented capacity is bound+1).
"""
import json, os
from . import ir, explore, build
from .explore import Explorer
from .build import AnalysisBroken

ROWS = [
    {"id": "uncompactCells.outSet", "props": ["C06"], "fn": "uncompactCells", "mod": "ssa", "buf": "outSet", "bound": {"param": "numOut"}, "allow": "<", "full_code": 14,
     "why": "uncompactCells never writes at or beyond the capacity numOut"},
    {"id": "polygonToCellsExperimental.out", "props": ["C15"], "fn": "polygonToCellsExperimental", "mod": "ssa", "buf": "out", "bound": {"param": "size"}, "allow": "<", "full_code": 14,
     "why": "a smaller capacity yields E_MEMORY_BOUNDS without overrun"},
    {"id": "gridPathCells.out", "props": ["C14"], "fn": "gridPathCells", "mod": "ssa", "buf": "out", "bound": {"local": "distance"}, "allow": "<=", "bound_min": 0,
     "why": "announced size is distance+1: indexes 0..distance only, also on the failing exits; a successful gridDistance yields a distance >= 0 (trusted: it is a maximum of absolute "
            "values), so slot 0 always lies inside the announced size"},
    {"id": "getIcosahedronFaces.out", "props": ["C19"], "fn": "getIcosahedronFaces", "mod": "inl", "buf": "out", "bound": {"local": "faceCount"}, "allow": "<",
     "why": "only the maxFaceCount(cell) slots are written"},
]


def _root(f, o):
    """strip value-preserving integer casts"""
    while o[0] == "i" and f.insts[o[1]].op in ("sext", "zext", "trunc", "freeze"):
        o = f.insts[o[1]].ops[0]
    return o


def _bound_keys(m, f, row):
    b = row["bound"]
    if "param" in b:
        k = f.arg_index(b["param"])
        if k is None:
            raise AnalysisBroken("row %s: parameter %s not found" % (row["id"], b["param"]))
        return [("a", k)]
    name = b["local"]
    keys = []
    allocas = {i.id for i in f.all_insts() if i.op == "alloca" and i.name.split(".")[0] == name}
    allocas |= {dv["v"][1] for dv in f.dbgvars if dv["name"] == name and dv["v"][0] == "i" and f.insts[dv["v"][1]].op == "alloca" and not dv["inl"]}
    for i in f.all_insts():
        if i.op == "load":
            base, path = ir.field_path(m, f, i.ops[0])
            if base[0] == "i" and base[1] in allocas and not path:
                keys.append(("i", i.id))
    for dv in f.dbgvars:
        if dv["name"] == name and dv["v"][0] == "i" and dv["plain"] and not dv["inl"] and dv["fn"] == f.d.get("dname", f.name):
            if f.insts[dv["v"][1]].op != "alloca":
                keys.append(("i", dv["v"][1]))
    if not keys:
        raise AnalysisBroken("row %s: local '%s' not found in %s" % (row["id"], name, f.name))
    return sorted(set(keys))


def explore_cint(o):
    v, bits = o[1], o[2]
    return v - (1 << bits) if v >> (bits - 1) else v


def check(ctx, get_module, props_sel, cfg="release", rule="R-BW"):
    n = 0
    for row in ROWS:
        if props_sel is not None and not (set(row["props"]) & set(props_sel)):
            continue
        n += 1
        try:
            _check_row(ctx, get_module, row, cfg, rule)
        except AnalysisBroken as e:
            ctx.broken(rule, "row %s: %s" % (row["id"], e))
    return n


def _check_row(ctx, get_module, row, cfg, rule):
    m = get_module(row["mod"], row["fn"])
    f = m.fn(row["fn"])
    bk = f.arg_index(row["buf"])
    if bk is None:
        raise AnalysisBroken("buffer parameter %s not found" % row["buf"])
    bounds = _bound_keys(m, f, row)
    # write sites: stores through buf, calls receiving a pointer into buf at a variable index
    sites = []
    for i in f.all_insts():
        ptrs = []
        if i.op == "store":
            ptrs = [i.ops[1]]
        elif i.op == "call" and i.callee and not i.callee.startswith("llvm.dbg") and not i.callee.startswith("llvm.lifetime"):
            cf = m.functions.get(i.callee)
            for k, o in enumerate(i.ops):
                if o[0] == "i" and f.insts[o[1]].type.endswith("*"):
                    ro = cf is not None and k < len(cf.args) and ("readonly" in cf.args[k]["attrs"] or "readnone" in cf.args[k]["attrs"])
                    if i.callee.startswith("llvm.mem") and k != 0:
                        ro = True
                    if not ro:
                        ptrs.append(o)
        for po in ptrs:
            base, path = ir.field_path(m, f, po)
            if base != ("a", bk):
                continue
            # index operand of the GEP
            g = f.insts[po[1]] if po[0] == "i" else None
            while g is not None and g.op == "bitcast":
                g = f.insts[g.ops[0][1]] if g.ops[0][0] == "i" else None
            if g is None:
                sites.append((i, None))      # store to buf[0]
                continue
            if g.op != "getelementptr" or len(g.ops) != 2:
                raise AnalysisBroken("write through %s at %s is not a single-index element access" % (row["buf"], i.where()))
            sites.append((i, _root(f, g.ops[1])))
    if not sites:
        raise AnalysisBroken("no write through parameter %s found in %s" % (row["buf"], f.name))
    # designated pairs: every index root (and the values feeding its phis) against every bound value
    idx_keys = set()
    work = [s[1] for s in sites if s[1] is not None and s[1][0] in ("i", "a")]
    while work:
        o = work.pop()
        k = (o[0], o[1])
        if k in idx_keys:
            continue
        idx_keys.add(k)
        if o[0] == "i":
            d = f.insts[o[1]]
            if d.op == "phi" or (d.op == "select" and d.type != "i1"):
                for x in (d.ops if d.op == "phi" else d.ops[1:]):
                    x = _root(f, x)
                    if x[0] in ("i", "a"):
                        work.append(x)
    pairs = {(ik, bkk) for ik in idx_keys for bkk in bounds}
    allowed = set(row["allow"].replace("<=", "<="))
    allowed = {"<"} if row["allow"] == "<" else {"<", "="}
    bad = []
    okc = [0]

    class P:
        def on_inst(self, ex, s, i):
            for si, idx in sites:
                if si.id != i.id:
                    continue
                good = False
                for bkk in bounds:
                    r = ex.rel_of(s.env, idx if idx is not None else ["c", 0, 64], list(bkk))
                    if r is not None and r <= allowed:
                        good = True
                # a constant index that does not exceed the smallest value the bound can have (row "bound_min") is inside for every bound
                if not good and "bound_min" in row and "=" in allowed:
                    cidx = 0 if idx is None else (explore_cint(idx) if idx[0] == "c" else None)
                    if cidx is not None and 0 <= cidx <= row["bound_min"]:
                        good = True
                # a non-negative lower bound is needed as well (signed index)
                if good and idx is not None and idx[0] in ("i", "a"):
                    pass
                if good:
                    okc[0] += 1
                else:
                    bad.append((i, s, idx))
            return None

        def on_ret(self, ex, s, t, av):
            if row.get("full_code") is None:
                return
            for (ik, bkk) in pairs:
                r = s.env.get(("rel", ik, bkk))
                if r is not None and r <= {">", "="}:
                    if av is None or explore.singleton(av) != row["full_code"]:
                        full.append((t, s, av))
    full = []
    ex = Explorer(f, plugin=P(), pairs=pairs).run()
    inst = {"row": row["id"], "function": row["fn"], "buffer": row["buf"], "bound": row["bound"], "write_sites": len(sites), "config": cfg}
    if full and not bad:
        t, s, av = full[0]
        ctx.violation(rule, row["id"] + ":code", "%s: when the index has reached the capacity (%s) the function returns %s at %s instead of E_MEMORY_BOUNDS; path lines %s"
                      % (row["fn"], json.dumps(row["bound"]), explore.fmt(av), t.where(), explore.trail_lines(f, s.trail)), t.where(), inst)
        return
    if bad:
        i, s, idx = bad[0]
        ctx.violation(rule, row["id"], "%s writes through '%s' at %s where no dominating condition (nor range) gives index %s %s; path lines %s"
                      % (row["fn"], row["buf"], i.where(), row["allow"], json.dumps(row["bound"]), explore.trail_lines(f, s.trail)), i.where(), inst)
    else:
        ctx.ok(rule, inst, "%d write site(s) through '%s': on every explored path state (%d visits) the relation facts give index %s bound at the write" % (len(sites), row["buf"], okc[0], row["allow"]))
