"""R-IDX: table subscripts fed by untrusted bit fields of index arguments (DESIGN.md 2.4, C12).

For every exported function that takes a 64-bit index, the fully inlined body is explored under the assumption that
the 7-bit base-cell field is 122..127 (resp. the 3-bit reserved/direction field is 7).  A subscript into a constant
table whose value, on such a path, lies entirely at or beyond the table's extent is a definite out-of-bounds read
reachable from the public API; a subscript that is only partly beyond is listed as undecided.
"""
import os
from concurrent.futures import ProcessPoolExecutor
from . import ir, explore, bits, build
from .explore import Explorer
from .build import AnalysisBroken

FIELDS = [
    {"name": "base cell", "off": 45, "w": 7, "bad": [122, 123, 124, 125, 126, 127]},
    {"name": "reserved/direction", "off": 56, "w": 3, "bad": [7]},
]
QUICK_FUNCS = ["cellToLatLng", "cellToBoundary", "gridDisk", "gridDiskDistancesUnsafe", "gridRingUnsafe", "cellToLocalIj", "localIjToCell",
               "gridDistance", "isPentagon", "getBaseCellNumber", "getDirectedEdgeDestination", "cellToVertex", "getIcosahedronFaces",
               "areNeighborCells", "cellToChildPos", "compactCells", "isValidCell", "cellsToDirectedEdge", "directedEdgeToBoundary", "vertexToLatLng"]


def _array_dims(ty):
    dims = []
    while True:
        a = ir.array_extent(ty)
        if not a:
            break
        dims.append(a[0])
        ty = a[1]
    return dims, ty


class IdxPlugin:
    def __init__(self, m, f, ex_roots):
        self.m, self.f = m, f
        self.hits = []      # (inst, kind, detail)
        self.seen_sites = set()

    def on_inst(self, ex, s, i):
        if i.op != "getelementptr":
            return None
        base = i.ops[0]
        gname = None
        if base[0] == "g":
            gname = base[1]
        if gname is None:
            return None
        g = self.m.globals.get(gname)
        if g is None:
            return None
        dims, _ = _array_dims(i.d.get("srcty", ""))
        if not dims:
            return None
        # operands: ptr, 0, idx0, idx1, ...  (struct field indexes are constants and skipped)
        ty = i.d["srcty"]
        k = 2
        for d in dims:
            if k >= len(i.ops):
                break
            o = i.ops[k]
            k += 1
            if o[0] == "c":
                continue
            self.seen_sites.add(i.id)
            av = ex.eval(o, s.env)
            if av is None or av[0] != "int" or explore.is_empty(av):
                continue
            dep = ex.tainted(o, s.env)
            if not dep:
                continue
            sv = explore.to_signed_ivs(av)
            lo, hi = sv[0][0], sv[-1][1]
            if lo >= d or hi < 0:
                self.hits.append((i, "definite", "index %s of %s (extent %d)" % (explore.fmt(av), g.get("dname", gname), d), s, o))
                ex.stop = True
            elif dep and (hi >= d or lo < 0):
                self.hits.append((i, "maybe", "index %s of %s (extent %d)" % (explore.fmt(av), g.get("dname", gname), d), s, o))
            # struct element arrays: later dims follow; keep scanning
        return None


STEPS = {"quick": 25000, "thorough": 400000}


def _pure_in(f, o, k, depth=0, seen=None):
    """operand o is computed from parameter k and constants only (arithmetic, casts, selects and phis of such)"""
    seen = set() if seen is None else seen
    if o[0] == "c":
        return True
    if o[0] == "a":
        return o[1] == k
    if o[0] != "i" or depth > 40:
        return False
    if o[1] in seen:
        return True
    seen.add(o[1])
    d = f.insts[o[1]]
    if d.op in ("add", "sub", "mul", "and", "or", "xor", "shl", "lshr", "ashr", "sdiv", "udiv", "srem", "urem", "sext", "zext", "trunc", "freeze", "icmp", "select", "phi"):
        return all(_pure_in(f, x, k, depth + 1, seen) for x in d.ops)
    return False


def _work(args):
    bc_path, fname, cfgname = args[:3]
    steps = args[3] if len(args) > 3 else STEPS["quick"]
    m = ir.load(bc_path, [fname])
    f = m.fn(fname)
    out = []
    params = [k for k, a in enumerate(f.args) if a["type"] == "i64"]
    ditypes = f.d.get("ditypes", [])
    for k in params:
        dt = ditypes[k + 1] if k + 1 < len(ditypes) else ""
        if dt != "H3Index":
            continue
        for fld in FIELDS:
            top = fld["off"] + fld["w"]
            for v in fld["bad"]:
                ivs = []
                for hi in range(1 << (64 - top)) if (64 - top) <= 10 else []:
                    b = (hi << top) | (v << fld["off"])
                    ivs.append((b, b + (1 << fld["off"]) - 1))
                if not ivs:
                    ivs = [(0, 0)] * 2000
                assume = {("a", k): explore.mk(64, ivs)} if len(ivs) <= 1024 else {}
                adef = {}
                for iid, shl in bits.field_values(f, ("a", k), fld["off"], fld["w"]):
                    adef[iid] = explore.const(v << shl, int(f.insts[iid].type[1:]))
                if not assume and not adef:
                    continue
                pl = IdxPlugin(m, f, None)
                try:
                    ex = Explorer(f, assume=assume, assume_def=adef, plugin=pl, keep_trail=True)
                    ex.track_taint = True
                    ex.MAXSTEPS = steps
                    ex.run()
                    status = "ok"
                except AnalysisBroken as e:
                    status = "broken: %s" % e
                hits = [(h[0].where(), h[0].src_fn, h[1], h[2], explore.trail_lines(f, h[3].trail)) for h in pl.hits]
                out.append({"fn": fname, "param": f.args[k]["name"], "field": fld["name"], "value": v, "status": status,
                            "sites": len(pl.seen_sites), "hits": hits, "steps": ex.steps})
    return out


def _work_int(args):
    """integer parameters (resolutions, codes, vertex numbers, k ...) taken as arbitrary 32-bit values: a table subscript derived from the parameter
    whose refined range on a path with exactly interpreted conditions reaches beyond the extent is attainable, hence definite"""
    bc_path, fname, cfgname = args[:3]
    steps = args[3] if len(args) > 3 else STEPS["quick"]
    m = ir.load(bc_path, [fname])
    f = m.fn(fname)
    out = []
    for k, a in enumerate(f.args):
        if a["type"] != "i32":
            continue
        pl = IdxPlugin(m, f, None)
        try:
            ex = Explorer(f, assume={("a", k): explore.full(32)}, plugin=pl, keep_trail=True)
            ex.track_taint = True
            ex.MAXSTEPS = steps
            ex.run()
            status = "ok"
        except AnalysisBroken as e:
            status = "broken: %s" % e
        hits = []
        for h in pl.hits:
            kind = h[1]
            # attainable only when the subscript is a function of the parameter alone: a value that also depends on memory or on a callee's result
            # (`(vertexNum + rotations) % 6` with rotations loaded) has a range that says nothing about which values occur
            if kind == "maybe" and not h[3].env.get(("flag", "approx_dep")) and not h[3].env.get(("flag", "approx")) and _pure_in(f, h[4], k):
                kind = "definite"
            hits.append((h[0].where(), h[0].src_fn, kind, h[2], explore.trail_lines(f, h[3].trail)))
        out.append({"fn": fname, "param": a["name"], "field": "integer parameter", "value": -1, "status": status, "sites": len(pl.seen_sites), "hits": hits, "steps": ex.steps})
    return out


def check_int(ctx, cfg, tier, api, rule="R-IDX"):
    b = build.build(cfg, ("inl",))
    mhead = ir.load(b["inl"], [], bodies=True)
    funcs = [fn for fn in api if fn in mhead.functions and not mhead.functions[fn].decl and any(a["type"] == "i32" for a in mhead.functions[fn].args)]
    ctx.floor(rule, "exported functions taking an integer", len(funcs), 25)
    results = []
    with ProcessPoolExecutor(max_workers=min(16, os.cpu_count() or 4)) as pool:
        for r in pool.map(_work_int, [(b["inl"], fn, cfg, STEPS.get(tier, STEPS["quick"])) for fn in funcs]):
            results.extend(r)
    n = 0
    for r in results:
        n += 1
        inst = {"function": r["fn"], "parameter": r["param"], "table_subscript_sites": r["sites"], "config": cfg}
        defs = [h for h in r["hits"] if h[2] == "definite"]
        if defs:
            where, srcfn, _k, detail, trail = defs[0]
            ctx.violation(rule, "oob-int:%s:%s" % (r["fn"], r["param"]), "%s(%s arbitrary): %s is read in %s although the guards on the path admit that value (lines %s)"
                          % (r["fn"], r["param"], detail, srcfn, trail), where, inst)
        elif r["status"] != "ok":
            ctx.undecided_site(rule, "%s(%s): %s" % (r["fn"], r["param"], r["status"]))
        else:
            for h in [h for h in r["hits"] if h[2] == "maybe"][:2]:
                ctx.undecided_site(rule, "%s(%s): %s at %s" % (r["fn"], r["param"], h[3], h[0]))
            ctx.ok(rule, inst, "every table subscript derived from the parameter stays inside the table on all exactly interpreted paths")
    return n


def check(ctx, cfg, tier, api, rule="R-IDX"):
    b = build.build(cfg, ("inl",))
    mhead = ir.load(b["inl"], [], bodies=True)
    funcs = []
    for fn in api:
        f = mhead.functions.get(fn)
        if f is None or f.decl:
            continue
        dt = f.d.get("ditypes", [])
        if any(t == "H3Index" for t in dt[1:]):
            funcs.append(fn)
    if tier != "thorough":
        funcs = [fn for fn in funcs if fn in QUICK_FUNCS]
    ctx.floor(rule, "exported functions taking an index", len(funcs), 15 if tier != "thorough" else 40)
    tasks = [(b["inl"], fn, cfg, STEPS.get(tier, STEPS["quick"])) for fn in funcs]
    results = []
    with ProcessPoolExecutor(max_workers=min(16, os.cpu_count() or 4)) as pool:
        for r in pool.map(_work, tasks):
            results.extend(r)
    nruns = 0
    per_fn = {}
    for r in results:
        nruns += 1
        d = per_fn.setdefault(r["fn"], {"runs": 0, "definite": [], "maybe": [], "broken": []})
        d["runs"] += 1
        if r["status"] != "ok":
            d["broken"].append(r["status"])
        for where, srcfn, kind, detail, trail in r["hits"]:
            d[kind].append((where, srcfn, detail, r["field"], r["value"], r["param"], trail))
    for fn, d in sorted(per_fn.items()):
        inst = {"function": fn, "runs": d["runs"], "config": cfg}
        if d["definite"]:
            where, srcfn, detail, field, value, param, trail = d["definite"][0]
            ctx.violation(rule, "oob:%s:%s" % (fn, srcfn),
                          "%s(%s with %s field = %d): %s is read out of bounds in %s - no guard on the path (lines %s)"
                          % (fn, param, field, value, detail, srcfn, trail), where, inst)
        elif d["broken"]:
            ctx.undecided_site(rule, "%s: %s" % (fn, d["broken"][0]))
            ctx.ok(rule, dict(inst, partial=True), "explored until the step limit without reaching an out-of-range table subscript")
        else:
            for x in d["maybe"][:3]:
                ctx.undecided_site(rule, "%s: %s at %s" % (fn, x[2], x[0]))
            ctx.ok(rule, inst, "with the base-cell field assumed 122..127 and the reserved field 7, no table subscript that depends on the field is reachable with an out-of-range value")
    ctx.note("idx_runs", nruns)
    return len(per_fn)
