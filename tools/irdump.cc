// irdump: export an LLVM-14 bitcode module as JSON for the Python rule engines.
// Usage: irdump <module.bc> [--funcs a,b,c | --all] [--no-bodies]
// Output on stdout: {"structs":…, "globals":…, "functions":…}
// Only facts of the program text are exported; nothing is executed.
#include "llvm/IR/Constants.h"
#include "llvm/IR/DebugInfo.h"
#include "llvm/IR/DebugInfoMetadata.h"
#include "llvm/IR/DataLayout.h"
#include "llvm/IR/Function.h"
#include "llvm/IR/GlobalVariable.h"
#include "llvm/IR/InstrTypes.h"
#include "llvm/IR/Instructions.h"
#include "llvm/IR/IntrinsicInst.h"
#include "llvm/IR/LLVMContext.h"
#include "llvm/IR/Module.h"
#include "llvm/IR/Operator.h"
#include "llvm/IRReader/IRReader.h"
#include "llvm/Support/SourceMgr.h"
#include "llvm/Support/raw_ostream.h"
#include <cmath>
#include <map>
#include <set>
#include <sstream>
#include <string>

using namespace llvm;

static std::string jstr(StringRef s) {
    std::string o = "\"";
    for (unsigned char c : s) {
        if (c == '"' || c == '\\') { o += '\\'; o += c; }
        else if (c < 0x20 || c >= 0x7f) { char b[8]; snprintf(b, sizeof b, "\\u%04x", c); o += b; }
        else o += c;
    }
    return o + "\"";
}
static std::string tystr(Type *t) {
    std::string s; raw_string_ostream os(s); t->print(os, false, true); return os.str();
}

struct Dumper {
    Module &M;
    const DataLayout &DL;
    std::map<const Instruction *, int> iid;
    std::map<const BasicBlock *, int> bid;
    std::map<const DIFile *, int> fileIdx;
    std::vector<std::string> files;
    Dumper(Module &m) : M(m), DL(m.getDataLayout()) {}

    int fileOf(const DIFile *f) {
        if (!f) return -1;
        auto it = fileIdx.find(f);
        if (it != fileIdx.end()) return it->second;
        std::string p = f->getFilename().str();
        if (!p.empty() && p[0] != '/') p = f->getDirectory().str() + "/" + p;
        files.push_back(p);
        return fileIdx[f] = (int)files.size() - 1;
    }

    std::string fconst(const APFloat &f) {
        double d;
        if (&f.getSemantics() == &APFloat::IEEEdouble()) d = f.convertToDouble();
        else if (&f.getSemantics() == &APFloat::IEEEsingle()) d = f.convertToFloat();
        else { bool li; APFloat g = f; g.convert(APFloat::IEEEdouble(), APFloat::rmNearestTiesToEven, &li); d = g.convertToDouble(); }
        if (std::isnan(d)) return "\"nan\"";
        if (std::isinf(d)) return d > 0 ? "\"inf\"" : "\"-inf\"";
        char b[64]; snprintf(b, sizeof b, "%.17g", d);
        return b;
    }

    std::string cst(const Constant *c) {
        if (auto *ci = dyn_cast<ConstantInt>(c)) {
            SmallString<40> s; ci->getValue().toStringUnsigned(s);
            return "[\"c\"," + s.str().str() + "," + std::to_string(ci->getBitWidth()) + "]";
        }
        if (auto *cf = dyn_cast<ConstantFP>(c)) return "[\"f\"," + fconst(cf->getValueAPF()) + "]";
        if (isa<ConstantPointerNull>(c)) return "[\"null\"]";
        if (isa<PoisonValue>(c)) return "[\"poison\"]";
        if (isa<UndefValue>(c)) return "[\"undef\"]";
        if (auto *gv = dyn_cast<GlobalVariable>(c)) return "[\"g\"," + jstr(gv->getName()) + "]";
        if (auto *fn = dyn_cast<Function>(c)) return "[\"fn\"," + jstr(fn->getName()) + "]";
        if (isa<ConstantAggregateZero>(c)) return "[\"zero\"," + jstr(tystr(c->getType())) + "]";
        if (auto *cds = dyn_cast<ConstantDataSequential>(c)) {
            if (cds->isString() || cds->isCString()) {
                return "[\"str\"," + jstr(cds->getAsString()) + "]";
            }
            std::string o = "[\"agg\",[";
            for (unsigned i = 0; i < cds->getNumElements(); i++) {
                if (i) o += ",";
                o += cst(cds->getElementAsConstant(i));
            }
            return o + "]]";
        }
        if (isa<ConstantAggregate>(c)) {
            std::string o = "[\"agg\",[";
            for (unsigned i = 0; i < c->getNumOperands(); i++) {
                if (i) o += ",";
                o += cst(cast<Constant>(c->getOperand(i)));
            }
            return o + "]]";
        }
        if (auto *ce = dyn_cast<ConstantExpr>(c)) {
            std::string o = "[\"ce\"," + jstr(ce->getOpcodeName()) + "," + jstr(tystr(ce->getType())) + ",[";
            for (unsigned i = 0; i < ce->getNumOperands(); i++) {
                if (i) o += ",";
                o += cst(cast<Constant>(ce->getOperand(i)));
            }
            o += "]";
            if (auto *gep = dyn_cast<GEPOperator>(ce)) o += "," + jstr(tystr(gep->getSourceElementType()));
            return o + "]";
        }
        return "[\"other\"]";
    }

    std::string opnd(const Value *v) {
        if (auto *i = dyn_cast<Instruction>(v)) return "[\"i\"," + std::to_string(iid[i]) + "]";
        if (auto *a = dyn_cast<Argument>(v)) return "[\"a\"," + std::to_string(a->getArgNo()) + "]";
        if (auto *b = dyn_cast<BasicBlock>(v)) return "[\"b\"," + std::to_string(bid[b]) + "]";
        if (auto *c = dyn_cast<Constant>(v)) return cst(c);
        if (isa<InlineAsm>(v)) return "[\"asm\"]";
        return "[\"md\"]";
    }

    std::string diTypeName(const DIType *t) {
        // name of the outermost typedef / basic / composite type, through qualifiers and pointers
        std::string suffix;
        while (t) {
            if (!t->getName().empty()) return t->getName().str() + suffix;
            if (auto *d = dyn_cast<DIDerivedType>(t)) {
                if (d->getTag() == dwarf::DW_TAG_pointer_type) suffix += "*";
                t = d->getBaseType();
            } else break;
        }
        return (t ? "?" : "void") + suffix;
    }

    std::string loc(const DebugLoc &dl) {
        // ,"l":line,"f":file,"ia":[[fn,file,line],...]
        if (!dl) return "";
        std::string o = ",\"l\":" + std::to_string(dl.getLine());
        const DILocation *L = dl.get();
        o += ",\"f\":" + std::to_string(fileOf(L->getFile()));
        if (auto *sp = L->getScope()->getSubprogram()) o += ",\"sf\":" + jstr(sp->getName());
        if (L->getInlinedAt()) {
            o += ",\"ia\":[";
            bool first = true;
            for (const DILocation *I = L->getInlinedAt(); I; I = I->getInlinedAt()) {
                if (!first) o += ",";
                first = false;
                std::string fn = I->getScope()->getSubprogram() ? I->getScope()->getSubprogram()->getName().str() : "";
                o += "[" + jstr(fn) + "," + std::to_string(fileOf(I->getFile())) + "," + std::to_string(I->getLine()) + "]";
            }
            o += "]";
        }
        return o;
    }

    void dumpStructs(raw_ostream &os) {
        // DI composite members by (name -> [(offsetBits, name, typeName)])
        std::map<std::string, std::vector<std::tuple<uint64_t, std::string, std::string>>> dim;
        // every DI member with its bit offset, bit size, bit-field flag and signedness (bit-fields share one IR element)
        std::map<std::string, std::string> dimem;
        DebugInfoFinder F; F.processModule(M);
        auto addComposite = [&](const std::string &nm, const DICompositeType *ct) {
            if (!ct || ct->getTag() != dwarf::DW_TAG_structure_type) return;
            if (dim.count(nm)) return;
            auto &v = dim[nm];
            std::string mem;
            for (auto *e : ct->getElements())
                if (auto *m = dyn_cast<DIDerivedType>(e))
                    if (m->getTag() == dwarf::DW_TAG_member) {
                        v.push_back({m->getOffsetInBits(), m->getName().str(), diTypeName(m->getBaseType())});
                        bool sg = false;
                        const DIType *bt = m->getBaseType();
                        while (bt) {
                            if (auto *b = dyn_cast<DIBasicType>(bt)) { sg = b->getEncoding() == dwarf::DW_ATE_signed || b->getEncoding() == dwarf::DW_ATE_signed_char; break; }
                            if (auto *d = dyn_cast<DIDerivedType>(bt)) { bt = d->getBaseType(); continue; }
                            break;
                        }
                        if (!mem.empty()) mem += ",";
                        mem += "[" + jstr(m->getName().str()) + "," + std::to_string(m->getOffsetInBits()) + "," + std::to_string(m->getSizeInBits()) + "," +
                               (m->isBitField() ? "true" : "false") + "," + (sg ? "true" : "false") + "]";
                    }
            dimem[nm] = mem;
        };
        for (auto *t : F.types()) {
            if (auto *ct = dyn_cast<DICompositeType>(t)) { if (!ct->getName().empty()) addComposite(ct->getName().str(), ct); }
            else if (auto *d = dyn_cast<DIDerivedType>(t)) {
                if (d->getTag() == dwarf::DW_TAG_typedef) {
                    const DIType *b = d->getBaseType();
                    if (auto *ct = dyn_cast_or_null<DICompositeType>(b)) addComposite(d->getName().str(), ct);
                }
            }
        }
        os << "\"structs\":{";
        bool first = true;
        for (StructType *st : M.getIdentifiedStructTypes()) {
            if (st->isOpaque()) continue;
            if (!first) os << ",";
            first = false;
            std::string nm = st->getName().str();
            os << jstr(nm) << ":{";
            const StructLayout *sl = DL.getStructLayout(st);
            os << "\"size\":" << sl->getSizeInBytes() << ",\"fields\":[";
            for (unsigned i = 0; i < st->getNumElements(); i++) {
                if (i) os << ",";
                os << "[" << jstr(tystr(st->getElementType(i))) << "," << sl->getElementOffset(i) << "]";
            }
            os << "],\"names\":[";
            // strip "struct." and any ".NN" suffix
            std::string key = nm;
            if (key.rfind("struct.", 0) == 0) key = key.substr(7);
            size_t dot = key.find('.');
            if (dot != std::string::npos) key = key.substr(0, dot);
            auto it = dim.find(key);
            for (unsigned i = 0; i < st->getNumElements(); i++) {
                if (i) os << ",";
                std::string mn, mt;
                if (it != dim.end())
                    for (auto &m : it->second)
                        if (std::get<0>(m) == sl->getElementOffsetInBits(i)) { mn = std::get<1>(m); mt = std::get<2>(m); break; }
                os << "[" << jstr(mn) << "," << jstr(mt) << "]";
            }
            os << "],\"members\":[" << (dimem.count(key) ? dimem[key] : std::string()) << "]}";
        }
        os << "}";
    }

    void dumpGlobals(raw_ostream &os) {
        os << "\"globals\":[";
        bool first = true;
        for (GlobalVariable &g : M.globals()) {
            if (!first) os << ",";
            first = false;
            os << "{\"name\":" << jstr(g.getName()) << ",\"const\":" << (g.isConstant() ? "true" : "false")
               << ",\"internal\":" << (g.hasLocalLinkage() ? "true" : "false")
               << ",\"type\":" << jstr(tystr(g.getValueType()))
               << ",\"decl\":" << (g.isDeclaration() ? "true" : "false")
               << ",\"tls\":" << (g.isThreadLocal() ? "true" : "false");
            if (g.hasInitializer()) os << ",\"init\":" << cst(g.getInitializer());
            SmallVector<DIGlobalVariableExpression *, 1> gves;
            g.getDebugInfo(gves);
            if (!gves.empty()) {
                auto *gv = gves[0]->getVariable();
                os << ",\"dname\":" << jstr(gv->getName()) << ",\"f\":" << fileOf(gv->getFile()) << ",\"l\":" << gv->getLine();
                if (auto *sp = dyn_cast_or_null<DISubprogram>(gv->getScope())) os << ",\"infn\":" << jstr(sp->getName());
                else if (auto *lb = dyn_cast_or_null<DILocalScope>(gv->getScope()))
                    if (auto *sp2 = lb->getSubprogram()) os << ",\"infn\":" << jstr(sp2->getName());
            }
            os << "}";
        }
        os << "]";
    }

    void dumpFunction(raw_ostream &os, Function &F, bool bodies) {
        iid.clear(); bid.clear();
        int n = 0, b = 0;
        for (BasicBlock &BB : F) { bid[&BB] = b++; for (Instruction &I : BB) iid[&I] = n++; }
        os << "{\"name\":" << jstr(F.getName()) << ",\"decl\":" << (F.isDeclaration() ? "true" : "false")
           << ",\"internal\":" << (F.hasLocalLinkage() ? "true" : "false")
           << ",\"ret\":" << jstr(tystr(F.getReturnType()))
           << ",\"varargs\":" << (F.isVarArg() ? "true" : "false")
           << ",\"intrinsic\":" << (F.isIntrinsic() ? "true" : "false");
        os << ",\"attrs\":[";
        {
            bool first = true;
            auto put = [&](const char *s) { if (!first) os << ","; first = false; os << jstr(s); };
            if (F.doesNotAccessMemory()) put("readnone");
            if (F.onlyReadsMemory()) put("readonly");
            if (F.onlyAccessesArgMemory()) put("argmemonly");
            if (F.doesNotReturn()) put("noreturn");
            if (F.doesNotRecurse()) put("norecurse");
        }
        os << "],\"args\":[";
        for (Argument &A : F.args()) {
            if (A.getArgNo()) os << ",";
            os << "{\"name\":" << jstr(A.getName()) << ",\"type\":" << jstr(tystr(A.getType())) << ",\"attrs\":[";
            bool first = true;
            auto put = [&](const char *s) { if (!first) os << ","; first = false; os << jstr(s); };
            if (A.onlyReadsMemory()) put("readonly");
            if (A.hasAttribute(Attribute::ReadNone)) put("readnone");
            if (A.hasAttribute(Attribute::WriteOnly)) put("writeonly");
            if (A.hasNoCaptureAttr()) put("nocapture");
            if (A.hasStructRetAttr()) put("sret");
            if (A.hasByValAttr()) put("byval");
            os << "]}";
        }
        os << "]";
        if (DISubprogram *sp = F.getSubprogram()) {
            os << ",\"dname\":" << jstr(sp->getName()) << ",\"f\":" << fileOf(sp->getFile()) << ",\"l\":" << sp->getLine();
            if (auto *st = sp->getType()) {
                os << ",\"ditypes\":[";
                bool first = true;
                for (auto t : st->getTypeArray()) {
                    if (!first) os << ",";
                    first = false;
                    os << jstr(diTypeName(t));
                }
                os << "]";
            }
        }
        if (!bodies || F.isDeclaration()) { os << "}"; return; }
        os << ",\"blocks\":[";
        std::string dbgvars;
        for (BasicBlock &BB : F) {
            if (bid[&BB]) os << ",";
            os << "{\"name\":" << jstr(BB.getName()) << ",\"insts\":[";
            bool firstI = true;
            for (Instruction &I : BB) {
                if (auto *dv = dyn_cast<DbgVariableIntrinsic>(&I)) {
                    // record simple variable bindings only
                    if (dv->getNumVariableLocationOps() == 1 && dv->getVariableLocationOp(0)) {
                        DIExpression *e = dv->getExpression();
                        bool plain = e->getNumElements() == 0;
                        if (!dbgvars.empty()) dbgvars += ",";
                        DILocalVariable *var = dv->getVariable();
                        std::string scopefn = var->getScope()->getSubprogram() ? var->getScope()->getSubprogram()->getName().str() : "";
                        dbgvars += "{\"v\":" + opnd(dv->getVariableLocationOp(0)) + ",\"name\":" + jstr(var->getName()) +
                                   ",\"arg\":" + std::to_string(var->getArg()) + ",\"fn\":" + jstr(scopefn) +
                                   ",\"plain\":" + (plain ? "true" : "false") +
                                   ",\"declare\":" + (isa<DbgDeclareInst>(dv) ? "true" : "false") +
                                   ",\"ty\":" + jstr(diTypeName(var->getType())) +
                                   ",\"inl\":" + (I.getDebugLoc() && I.getDebugLoc()->getInlinedAt() ? "true" : "false") +
                                   ",\"at\":" + std::to_string(iid[&I]) + "}";
                    }
                    continue;
                }
                if (isa<DbgInfoIntrinsic>(&I)) continue;
                if (!firstI) os << ",";
                firstI = false;
                os << "{\"i\":" << iid[&I] << ",\"op\":" << jstr(I.getOpcodeName()) << ",\"t\":" << jstr(tystr(I.getType()));
                if (I.hasName()) os << ",\"n\":" << jstr(I.getName());
                os << ",\"o\":[";
                if (auto *phi = dyn_cast<PHINode>(&I)) {
                    for (unsigned k = 0; k < phi->getNumIncomingValues(); k++) {
                        if (k) os << ",";
                        os << opnd(phi->getIncomingValue(k));
                    }
                    os << "],\"inc\":[";
                    for (unsigned k = 0; k < phi->getNumIncomingValues(); k++) {
                        if (k) os << ",";
                        os << bid[phi->getIncomingBlock(k)];
                    }
                    os << "]";
                } else if (auto *cb = dyn_cast<CallBase>(&I)) {
                    for (unsigned k = 0; k < cb->arg_size(); k++) {
                        if (k) os << ",";
                        os << opnd(cb->getArgOperand(k));
                    }
                    os << "]";
                    if (Function *cf = cb->getCalledFunction()) os << ",\"callee\":" << jstr(cf->getName());
                    else {
                        const Value *cv = cb->getCalledOperand()->stripPointerCasts();
                        if (auto *f2 = dyn_cast<Function>(cv)) os << ",\"callee\":" << jstr(f2->getName());
                        else os << ",\"callee\":null,\"calleev\":" << opnd(cb->getCalledOperand());
                    }
                } else {
                    for (unsigned k = 0; k < I.getNumOperands(); k++) {
                        if (k) os << ",";
                        os << opnd(I.getOperand(k));
                    }
                    os << "]";
                }
                if (auto *c = dyn_cast<CmpInst>(&I)) os << ",\"pred\":" << jstr(CmpInst::getPredicateName(c->getPredicate()));
                if (auto *g = dyn_cast<GetElementPtrInst>(&I)) os << ",\"srcty\":" << jstr(tystr(g->getSourceElementType())) << ",\"inb\":" << (g->isInBounds() ? "true" : "false");
                if (auto *a = dyn_cast<AllocaInst>(&I)) os << ",\"aty\":" << jstr(tystr(a->getAllocatedType()));
                if (auto *l = dyn_cast<LoadInst>(&I)) { if (l->isVolatile()) os << ",\"vol\":true"; if (l->isAtomic()) os << ",\"atomic\":true"; }
                if (auto *s = dyn_cast<StoreInst>(&I)) { if (s->isVolatile()) os << ",\"vol\":true"; if (s->isAtomic()) os << ",\"atomic\":true"; }
                if (auto *sw = dyn_cast<SwitchInst>(&I)) {
                    os << ",\"cases\":[";
                    bool f1 = true;
                    for (auto &c : sw->cases()) {
                        if (!f1) os << ",";
                        f1 = false;
                        SmallString<40> s; c.getCaseValue()->getValue().toStringUnsigned(s);
                        os << "[" << s.str().str() << "," << bid[c.getCaseSuccessor()] << "]";
                    }
                    os << "],\"default\":" << bid[sw->getDefaultDest()];
                }
                if (auto *bo = dyn_cast<OverflowingBinaryOperator>(&I)) { if (bo->hasNoSignedWrap()) os << ",\"nsw\":true"; if (bo->hasNoUnsignedWrap()) os << ",\"nuw\":true"; }
                if (auto *ev = dyn_cast<ExtractValueInst>(&I)) { os << ",\"idx\":["; for (unsigned k = 0; k < ev->getNumIndices(); k++) { if (k) os << ","; os << ev->getIndices()[k]; } os << "]"; }
                if (auto *iv = dyn_cast<InsertValueInst>(&I)) { os << ",\"idx\":["; for (unsigned k = 0; k < iv->getNumIndices(); k++) { if (k) os << ","; os << iv->getIndices()[k]; } os << "]"; }
                os << loc(I.getDebugLoc());
                os << "}";
            }
            os << "]}";
        }
        os << "],\"dbgvars\":[" << dbgvars << "]}";
    }
};

int main(int argc, char **argv) {
    if (argc < 2) { errs() << "usage: irdump mod.bc [--funcs a,b|--all] [--no-bodies]\n"; return 2; }
    std::set<std::string> want; bool all = true, bodies = true;
    for (int i = 2; i < argc; i++) {
        std::string a = argv[i];
        if (a == "--funcs" && i + 1 < argc) {
            all = false; std::stringstream ss(argv[++i]); std::string t;
            while (std::getline(ss, t, ',')) want.insert(t);
        } else if (a == "--all") all = true;
        else if (a == "--no-bodies") bodies = false;
    }
    LLVMContext ctx; SMDiagnostic err;
    std::unique_ptr<Module> M = parseIRFile(argv[1], err, ctx);
    if (!M) { err.print("irdump", errs()); return 2; }
    Dumper D(*M);
    raw_ostream &os = outs();
    os << "{";
    D.dumpStructs(os);
    os << ",";
    D.dumpGlobals(os);
    os << ",\"functions\":[";
    bool first = true;
    for (Function &F : *M) {
        bool body = bodies && (all || want.count(F.getName().str()));
        if (!first) os << ",";
        first = false;
        D.dumpFunction(os, F, body);
        os << "\n";
    }
    os << "],\"files\":[";
    for (size_t i = 0; i < D.files.size(); i++) { if (i) os << ","; os << jstr(D.files[i]); }
    os << "],\"datalayout\":" << jstr(M->getDataLayoutStr()) << "}\n";
    return 0;
}
