/* R-WIT: compile-fail witnesses over the real headers of /repo (DESIGN.md 2.4).
 * Each W(id, props, cond) is a _Static_assert; a failing one is reported by the compiler with the header's
 * values.  The id maps to the properties listed in the second argument (parsed by vlib/rules_wit.py).
 * Documented layout: website/docs/library/index/cell.md (1 high bit, 4 mode, 3 reserved, 4 resolution, 7 base cell, 15x3 digits). */
#include <stdint.h>
#include "h3api.h"
#include "h3Index.h"
#include "constants.h"
#include "coordijk.h"
#include "polygon.h"
#include "faceijk.h"
#include "vertex.h"
#define W(id, props, cond) _Static_assert(cond, "WIT " #id " " props)

/* index layout */
W(high_offset,      "C01 C10 C11", H3_MAX_OFFSET == 63);
W(mode_offset,      "C01 C10 C11", H3_MODE_OFFSET == 59);
W(reserved_offset,  "C01 C10 C11", H3_RESERVED_OFFSET == 56);
W(res_offset,       "C01 C04 C13", H3_RES_OFFSET == 52);
W(bc_offset,        "C01 C03", H3_BC_OFFSET == 45);
W(digit_width,      "C01 C04 C13", H3_PER_DIGIT_OFFSET == 3);
W(high_mask,        "C01", H3_HIGH_BIT_MASK == (UINT64_C(1) << 63));
W(mode_mask,        "C01 C10 C11", H3_MODE_MASK == (UINT64_C(15) << 59));
W(reserved_mask,    "C01 C10 C11", H3_RESERVED_MASK == (UINT64_C(7) << 56));
W(res_mask,         "C01 C04 C13", H3_RES_MASK == (UINT64_C(15) << 52));
W(bc_mask,          "C01 C03", H3_BC_MASK == (UINT64_C(127) << 45));
W(digit_mask,       "C01 C04 C13", H3_DIGIT_MASK == UINT64_C(7));
W(masks_disjoint,   "C01", (H3_HIGH_BIT_MASK & H3_MODE_MASK) == 0 && (H3_MODE_MASK & H3_RESERVED_MASK) == 0 &&
                           (H3_RESERVED_MASK & H3_RES_MASK) == 0 && (H3_RES_MASK & H3_BC_MASK) == 0 &&
                           (H3_BC_MASK & ((UINT64_C(1) << 45) - 1)) == 0);
W(masks_cover,      "C01", (H3_HIGH_BIT_MASK | H3_MODE_MASK | H3_RESERVED_MASK | H3_RES_MASK | H3_BC_MASK | ((UINT64_C(1) << 45) - 1)) == UINT64_MAX);
W(negative_masks,   "C01 C10 C11", H3_MODE_MASK_NEGATIVE == ~H3_MODE_MASK && H3_RESERVED_MASK_NEGATIVE == ~H3_RESERVED_MASK &&
                           H3_RES_MASK_NEGATIVE == ~H3_RES_MASK && H3_BC_MASK_NEGATIVE == ~H3_BC_MASK && H3_HIGH_BIT_MASK_NEGATIVE == ~H3_HIGH_BIT_MASK);
W(h3_init,          "C01 C03", H3_INIT == (UINT64_C(1) << 45) - 1);
W(h3_null,          "C01", H3_NULL == 0);
W(getters,          "C01 C04 C10 C11 C13", H3_GET_MODE(UINT64_C(0x1800000000000000)) == 3 && H3_GET_RESERVED_BITS(UINT64_C(0x0500000000000000)) == 5 &&
                           H3_GET_RESOLUTION(UINT64_C(0x00A0000000000000)) == 10 && H3_GET_BASE_CELL(UINT64_C(0x000F200000000000)) == 121 &&
                           H3_GET_HIGH_BIT(UINT64_C(0x8000000000000000)) == 1);
W(digit_getter,     "C01 C04 C13", H3_GET_INDEX_DIGIT(UINT64_C(5) << 42, 1) == 5 && H3_GET_INDEX_DIGIT(UINT64_C(6), 15) == 6 &&
                           H3_GET_INDEX_DIGIT(UINT64_C(3) << 21, 8) == 3);
/* modes */
W(cell_mode,        "C01 C03 C10 C11", H3_CELL_MODE == 1);
W(edge_mode,        "C10", H3_DIRECTEDEDGE_MODE == 2);
W(vertex_mode,      "C11", H3_VERTEX_MODE == 4);
/* counts */
W(max_res,          "C01 C02 C03 C04 C12 C13", MAX_H3_RES == 15);
W(num_base_cells,   "C01 C03 C12", NUM_BASE_CELLS == 122);
W(num_pentagons,    "C03", NUM_PENTAGONS == 12);
W(num_faces,        "C19 C08", NUM_ICOSA_FACES == 20);
W(num_hex_verts,    "C08 C11", NUM_HEX_VERTS == 6);
W(num_pent_verts,   "C08 C11", NUM_PENT_VERTS == 5);
W(max_bndry_verts,  "C08 C12", MAX_CELL_BNDRY_VERTS == 10);
W(invalid_vertex,   "C11", INVALID_VERTEX_NUM == -1);
/* digits */
W(digits,           "C01 C05 C09", CENTER_DIGIT == 0 && K_AXES_DIGIT == 1 && J_AXES_DIGIT == 2 && JK_AXES_DIGIT == 3 && I_AXES_DIGIT == 4 &&
                           IK_AXES_DIGIT == 5 && IJ_AXES_DIGIT == 6 && INVALID_DIGIT == 7 && NUM_DIGITS == 7);
W(pent_skipped,     "C01 C10", PENTAGON_SKIPPED_DIGIT == K_AXES_DIGIT);
/* error codes */
W(error_codes,      "C12", E_SUCCESS == 0 && E_FAILED == 1 && E_DOMAIN == 2 && E_LATLNG_DOMAIN == 3 && E_RES_DOMAIN == 4 && E_CELL_INVALID == 5 &&
                           E_DIR_EDGE_INVALID == 6 && E_UNDIR_EDGE_INVALID == 7 && E_VERTEX_INVALID == 8 && E_PENTAGON == 9 && E_DUPLICATE_INPUT == 10 &&
                           E_NOT_NEIGHBORS == 11 && E_RES_MISMATCH == 12 && E_MEMORY_ALLOC == 13 && E_MEMORY_BOUNDS == 14 && E_OPTION_INVALID == 15);
W(error_width,      "C12", sizeof(H3Error) == 4);
W(index_width,      "C01 C20", sizeof(H3Index) == 8);
/* containment modes */
W(containment,      "C15", CONTAINMENT_CENTER == 0 && CONTAINMENT_FULL == 1 && CONTAINMENT_OVERLAPPING == 2 && CONTAINMENT_OVERLAPPING_BBOX == 3 && CONTAINMENT_INVALID == 4);
W(containment_mask, "C15", (FLAG_CONTAINMENT_MODE_MASK & 3u) == 3u && FLAG_GET_CONTAINMENT_MODE(2u) == 2u);
/* face quadrants used by the overage tables */
W(quadrants,        "C08 C19 C03", IJ == 1 && KI == 2 && JK == 3 && INVALID_FACE == -1);
